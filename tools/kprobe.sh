#!/bin/bash
# usage: kprobe.sh <crate-dir> <timeout-s> <harness> [<harness>...]   (probe helper; not used by checks)
crate=$1; to=$2; shift 2
args=""; for h in "$@"; do args="$args --harness $h"; done
tag=$(echo "$crate-$1" | tr '/' '_')
mkdir -p /tmp/vs/probe
cd /repo/$crate && EGGLOG_VERIF_DIR=${EGGLOG_VERIF_DIR:-/verif} CARGO_NET_OFFLINE=true timeout $to cargo kani -Z stubbing -Z unstable-options --target-dir /tmp/vs/kp-$tag -j 8 --output-format terse --harness-timeout ${to}s --export-json /tmp/vs/probe/$tag.json --no-assertion-reach-checks $args > /tmp/vs/probe/$tag.log 2>&1
echo "rc=$?" >> /tmp/vs/probe/$tag.log
python3 - <<PY
import json,sys
try:
    d=json.load(open('/tmp/vs/probe/$tag.json'))
    for r in d['verification_results']['results']:
        bad=[c for c in r['checks'] if c['status'] in ('Failure','Unsatisfiable','Undetermined')]
        print(r['harness_id'], r['status'], r['duration_ms']/1000, [ (c['description'],c['status']) for c in bad][:6])
except Exception as e:
    print('no json', e)
    import subprocess
    print(subprocess.run("grep -E '^error|panicked|ICE|internal compiler' -A5 /tmp/vs/probe/$tag.log | head -40; tail -5 /tmp/vs/probe/$tag.log",shell=True,capture_output=True,text=True).stdout)
PY
