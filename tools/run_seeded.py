#!/usr/bin/env python3
"""run_seeded.py [<seeded id> ...] -- apply each kept seeded change to /repo, run the check recorded for it, undo it.

For every /verif/seeded/<id>/meta.json with a "regression" entry {"cmd": "...", "expect_exit": 1|0} the patch is
applied with `git -C /repo apply`, the command is run in /verif, and /repo is restored with `git -C /repo checkout -- .`
straight afterwards.  Evidence files are saved and restored around each run (a run against a seeded change must not
become the committed evidence).  Prints one line per seeded change; exit 0 iff every expectation was met."""
import json
import os
import shutil
import subprocess
import sys

VERIF = os.path.dirname(os.path.dirname(os.path.abspath(__file__)))
REPO = os.environ.get("EGGLOG_REPO", "/repo")


def main():
    want = set(sys.argv[1:])
    ok = True
    keep = os.path.join("/var/tmp", "evidence_keep_run_seeded")
    for sid in sorted(os.listdir(os.path.join(VERIF, "seeded"))):
        if want and sid not in want:
            continue
        d = os.path.join(VERIF, "seeded", sid)
        meta = json.load(open(os.path.join(d, "meta.json")))
        reg = meta.get("regression")
        if not reg:
            print("%-40s no regression command recorded (%s)" % (sid, meta.get("caught_by", "")[:60]))
            continue
        if subprocess.run(["git", "-C", REPO, "status", "--porcelain"], capture_output=True, text=True).stdout.strip():
            print("refusing to run: /repo has uncommitted changes")
            return 2
        shutil.rmtree(keep, ignore_errors=True)
        shutil.copytree(os.path.join(VERIF, "evidence"), keep)
        try:
            subprocess.run(["git", "-C", REPO, "apply", os.path.join(d, "patch.diff")], check=True)
            p = subprocess.run(reg["cmd"], shell=True, cwd=VERIF, capture_output=True, text=True)
        finally:
            subprocess.run(["git", "-C", REPO, "checkout", "--", "."], check=True)
            shutil.rmtree(os.path.join(VERIF, "evidence"))
            shutil.copytree(keep, os.path.join(VERIF, "evidence"))
        vio = [l for l in p.stdout.splitlines() if l.startswith("VIOLATION")]
        good = p.returncode == reg.get("expect_exit", 1) and (bool(vio) == (reg.get("expect_exit", 1) == 1))
        ok &= good
        print("%-40s exit %d (%d VIOLATION lines) -- %s" % (sid, p.returncode, len(vio), "as expected" if good else "UNEXPECTED"))
    return 0 if ok else 1


if __name__ == "__main__":
    sys.exit(main())
