#!/usr/bin/env python3
"""Regenerates /verif/MANIFEST.json from lib/manifest_data.py (keeps it valid and in one place)."""
import json, os, sys
HERE = os.path.dirname(os.path.abspath(__file__))
sys.path.insert(0, os.path.join(os.path.dirname(HERE), "lib"))
import manifest_data as md
m = md.build()
path = os.path.join(os.path.dirname(HERE), "MANIFEST.json")
json.dump(m, open(path, "w"), indent=1)
print("wrote", path, "claimed:", [c["property_id"] for c in m["checks"]], "n/a:", [c["property_id"] for c in m["not_applicable"]])
