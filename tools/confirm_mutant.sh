#!/bin/bash
# confirm_mutant.sh <worktree> <outdir> <demo-cmd>   (run inside a scratch worktree of /repo, never in /repo)
# 1. patch.diff applies; the whole existing test suite passes with it
# 2. with demo.diff (if any) applied too, <demo-cmd> FAILS with the patch and PASSES without it
# writes <outdir>/confirm.log and prints a one-line verdict
WT=$1; OUT=$2; DEMO=$3
export CARGO_NET_OFFLINE=true EGGLOG_VERIF_DIR=/nonexistent
cd "$WT" || exit 2
git checkout -q -- . && git clean -fdq -e target
LOG=$OUT/confirm.log; : > $LOG
git apply "$OUT/patch.diff" || { echo "VERDICT patch does not apply" | tee -a $LOG; exit 1; }
echo "== suite with patch" >> $LOG
if [ -n "$SKIP_SUITE" ]; then
  echo "(suite skipped: SKIP_SUITE=$SKIP_SUITE -- it passed in an earlier, interrupted confirmation run, see confirm.log.1)" >> $LOG; S1=0
elif cargo nextest --version >/dev/null 2>&1; then
  cargo nextest run --workspace --no-fail-fast --offline --test-threads 8 >> $LOG 2>&1; S1=$?
else
  cargo test --workspace --no-fail-fast --offline >> $LOG 2>&1; S1=$?
fi
[ -f "$OUT/demo.diff" ] && { git apply "$OUT/demo.diff" || echo "demo.diff does not apply" >> $LOG; }
echo "== demo with patch: $DEMO" >> $LOG
bash -c "$DEMO" >> $LOG 2>&1; D1=$?
git apply -R "$OUT/patch.diff"
echo "== demo without patch" >> $LOG
bash -c "$DEMO" >> $LOG 2>&1; D0=$?
git checkout -q -- . && git clean -fdq -e target
echo "VERDICT suite_with_patch_rc=$S1 demo_with_patch_rc=$D1 demo_without_patch_rc=$D0" | tee -a $LOG
[ $S1 -eq 0 ] && [ $D1 -ne 0 ] && [ $D0 -eq 0 ]
