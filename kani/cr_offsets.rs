// Included at the end of core-relations/src/offsets/mod.rs under cfg(kani).
// C16.3 — sorted-offset search kernels, bounded pagination, subset intersection.
use super::*;

const S: usize = 6;

fn r(x: u32) -> RowId {
    RowId::new(x)
}

/// Symbolic sorted (non-decreasing) array of S row ids and a symbolic length <= S.
fn any_sorted() -> ([RowId; S], usize) {
    let mut a = [r(0); S];
    let mut i = 0;
    while i < S {
        let x: u32 = kani::any();
        kani::assume(x < 64);
        if i > 0 {
            kani::assume(a[i - 1].rep() <= x);
        }
        a[i] = r(x);
        i += 1;
    }
    let len: usize = kani::any();
    kani::assume(len <= S);
    (a, len)
}

/// First index >= start whose element is >= target (or len).
fn lower_bound(a: &[RowId], start: usize, target: RowId) -> usize {
    let mut i = start;
    while i < a.len() {
        if a[i] >= target {
            return i;
        }
        i += 1;
    }
    a.len()
}

#[kani::proof]
#[kani::unwind(8)]
fn c16_offs_scan_for_offset() {
    let (a, len) = any_sorted();
    let slice = unsafe { SortedOffsetSlice::new_unchecked(&a[..len]) };
    let start: usize = kani::any();
    kani::assume(start <= S + 1);
    let t: u32 = kani::any();
    kani::assume(t < 66);
    let got = slice.scan_for_offset(start, r(t));
    if start >= len {
        assert!(got == Err(len));
    } else {
        let lb = lower_bound(&a[..len], start, r(t));
        match got {
            Ok(i) => {
                assert!(i == lb && i < len && a[i] == r(t));
            }
            Err(i) => {
                assert!(i == lb);
                assert!(lb == len || a[lb] > r(t));
            }
        }
    }
    kani::cover!(matches!(got, Ok(i) if i >= start + 3), "witness: found by galloping at distance >= 3");
    kani::cover!(matches!(got, Err(i) if i > start + 1 && i < len), "witness: miss strictly inside the slice");
}

#[kani::proof]
#[kani::unwind(8)]
fn c16_offs_binary_search_from() {
    let (a, len) = any_sorted();
    let slice = unsafe { SortedOffsetSlice::new_unchecked(&a[..len]) };
    let start: usize = kani::any();
    kani::assume(start <= len);
    let t: u32 = kani::any();
    kani::assume(t < 66);
    // the only caller with start != 0 (Subset::intersect, Sparse x Dense) guarantees that everything
    // before `start` is strictly below the target
    kani::assume(start == 0 || a[start - 1] < r(t));
    let got = slice.binary_search_from(start, r(t));
    assert!(got == lower_bound(&a[..len], start, r(t)));
    assert!(slice.binary_search_by_id(r(t)) == lower_bound(&a[..len], 0, r(t)));
    kani::cover!(got > start && got < len && a[got] == r(t) && got + 1 < len && a[got + 1] == r(t),
        "witness: duplicates of the target, first one returned");
}

#[kani::proof]
#[kani::unwind(8)]
fn c16_offs_iter_bounded_dense() {
    let lo: u32 = kani::any();
    let n: u32 = kani::any();
    kani::assume(lo < 5 && n <= 5);
    let range = OffsetRange::new(r(lo), r(lo + n));
    let start: usize = kani::any();
    let end: usize = kani::any();
    kani::assume(start <= 6 && end <= 7 && start <= end);
    kani::assume(start <= n as usize);
    let mut seen = [false; 12];
    let mut count = 0usize;
    let mut last: Option<u32> = None;
    let mut ordered = true;
    let next = SubsetRef::Dense(range).iter_bounded(start, end, |row| {
        let x = row.rep();
        if let Some(p) = last {
            if p >= x {
                ordered = false;
            }
        }
        last = Some(x);
        if (x as usize) < 12 {
            seen[x as usize] = true;
        }
        count += 1;
    });
    // exactly positions [start, min(end, n)) of the range, in order
    let stop = core::cmp::min(end, n as usize);
    let expect = if stop > start { stop - start } else { 0 };
    assert!(ordered);
    assert!(count == expect);
    let mut p = 0usize;
    while p < 6 {
        let x = lo as usize + p;
        let inside = p >= start && p < stop;
        assert!(seen[x] == inside);
        p += 1;
    }
    // Some(next) iff rows remain; next is where to resume
    if stop < n as usize {
        assert!(next == Some(core::cmp::max(stop, start)));
    } else {
        assert!(next.is_none());
    }
    kani::cover!(next.is_some() && count == 2, "witness: a page of two with more to come");
    kani::cover!(next.is_none() && count == 3, "witness: last page");
}

#[kani::proof]
#[kani::unwind(8)]
fn c16_offs_iter_bounded_sparse() {
    let (a, len) = any_sorted();
    let slice = unsafe { SortedOffsetSlice::new_unchecked(&a[..len]) };
    let start: usize = kani::any();
    let end: usize = kani::any();
    kani::assume(start <= end && end <= S + 2 && start <= len);
    let mut count = 0usize;
    let mut ok = true;
    let next = SubsetRef::Sparse(slice).iter_bounded(start, end, |row| {
        if start + count >= len || a[start + count] != row {
            ok = false;
        }
        count += 1;
    });
    let stop = core::cmp::min(end, len);
    assert!(ok);
    assert!(count == stop - start);
    if stop < len {
        assert!(next == Some(stop));
    } else {
        assert!(next.is_none());
    }
    kani::cover!(next.is_some() && count == 2, "witness: a page of two with more to come");
}

#[kani::proof]
#[kani::unwind(4)]
fn c16_offs_intersect_dense_dense() {
    let a0: u32 = kani::any();
    let a1: u32 = kani::any();
    let b0: u32 = kani::any();
    let b1: u32 = kani::any();
    kani::assume(a0 <= a1 && b0 <= b1 && a1 < 1000 && b1 < 1000);
    let mut s = Subset::Dense(OffsetRange::new(r(a0), r(a1)));
    let pool: Pool<SortedOffsetVector> = Pool::default();
    s.intersect(SubsetRef::Dense(OffsetRange::new(r(b0), r(b1))), &pool);
    let x: u32 = kani::any();
    kani::assume(x < 1000);
    let expect = a0 <= x && x < a1 && b0 <= x && x < b1;
    match &s {
        Subset::Dense(rg) => {
            assert!(rg.start <= rg.end);
            assert!((rg.start.rep() <= x && x < rg.end.rep()) == expect);
        }
        Subset::Sparse(_) => assert!(false),
    }
    kani::cover!(s.size() > 0 && a0 < b0 && b1 < a1, "witness: proper containment");
    kani::cover!(s.size() == 0 && a1 > a0 && b1 > b0, "witness: disjoint non-empty ranges");
    std::mem::forget(s);
    std::mem::forget(pool);
}

fn member(a: &[RowId], x: RowId) -> bool {
    let mut i = 0;
    while i < a.len() {
        if a[i] == x {
            return true;
        }
        i += 1;
    }
    false
}

/// strictly increasing symbolic array of N ids below `bound`
fn any_strict<const N: usize>(bound: u32) -> [RowId; N] {
    let mut a = [r(0); N];
    let mut i = 0;
    while i < N {
        let x: u32 = kani::any();
        kani::assume(x < bound);
        if i > 0 {
            kani::assume(a[i - 1].rep() < x);
        }
        a[i] = r(x);
        i += 1;
    }
    a
}

fn sparse_of(a: &[RowId]) -> Subset {
    let mut v = Vec::with_capacity(a.len() + 1);
    let mut i = 0;
    while i < a.len() {
        v.push(a[i]);
        i += 1;
    }
    Subset::Sparse(Pooled::new(SortedOffsetVector(v)))
}

fn check_result_is_intersection(s: &Subset, in_a: impl Fn(RowId) -> bool, in_b: impl Fn(RowId) -> bool, bound: u32) {
    // sortedness + exact membership for a symbolic probe
    let x: u32 = kani::any();
    kani::assume(x < bound);
    let expect = in_a(r(x)) && in_b(r(x));
    match s {
        Subset::Dense(rg) => {
            assert!(rg.start <= rg.end);
            assert!((rg.start.rep() <= x && x < rg.end.rep()) == expect);
        }
        Subset::Sparse(vv) => {
            let sl = vv.slice().inner();
            let mut i = 1;
            while i < sl.len() {
                assert!(sl[i - 1] < sl[i], "result stays strictly sorted (each live row once)");
                i += 1;
            }
            assert!(member(sl, r(x)) == expect);
        }
    }
}

/// Sparse x Dense: in-place truncation / copy_within.
#[kani::proof]
#[kani::unwind(7)]
fn c16_offs_intersect_sparse_dense() {
    let a = any_strict::<4>(12);
    let mut s = sparse_of(&a);
    let b0: u32 = kani::any();
    let b1: u32 = kani::any();
    kani::assume(b0 <= b1 && b1 <= 13);
    let pool: Pool<SortedOffsetVector> = Pool::default();
    s.intersect(SubsetRef::Dense(OffsetRange::new(r(b0), r(b1))), &pool);
    check_result_is_intersection(&s, |x| member(&a, x), |x| b0 <= x.rep() && x.rep() < b1, 13);
    kani::cover!(s.size() == 2 && a[0].rep() < b0, "witness: a prefix was dropped and two rows kept");
    std::mem::forget(s);
    std::mem::forget(pool);
}

/// Dense x Sparse: sub-slice copy into a fresh vector.
#[kani::proof]
#[kani::unwind(7)]
fn c16_offs_intersect_dense_sparse() {
    let b = any_strict::<4>(12);
    let a0: u32 = kani::any();
    let a1: u32 = kani::any();
    kani::assume(a0 <= a1 && a1 <= 13);
    let mut s = Subset::Dense(OffsetRange::new(r(a0), r(a1)));
    let pool: Pool<SortedOffsetVector> = Pool::default();
    let other = unsafe { SortedOffsetSlice::new_unchecked(&b[..]) };
    s.intersect(SubsetRef::Sparse(other), &pool);
    check_result_is_intersection(&s, |x| a0 <= x.rep() && x.rep() < a1, |x| member(&b, x), 13);
    kani::cover!(s.size() == 2, "witness: two rows kept");
    kani::cover!(s.size() == 0 && a1 > a0, "witness: empty result from a non-empty range");
    std::mem::forget(s);
    std::mem::forget(pool);
}

/// Sparse x Sparse, similar sizes: the two-pointer arm.
#[kani::proof]
#[kani::unwind(7)]
fn c16_offs_intersect_sparse_sparse_twoptr() {
    let a = any_strict::<3>(8);
    let b = any_strict::<3>(8);
    let mut s = sparse_of(&a);
    let pool: Pool<SortedOffsetVector> = Pool::default();
    let other = unsafe { SortedOffsetSlice::new_unchecked(&b[..]) };
    s.intersect(SubsetRef::Sparse(other), &pool);
    check_result_is_intersection(&s, |x| member(&a, x), |x| member(&b, x), 8);
    kani::cover!(s.size() == 2, "witness: two common rows");
    kani::cover!(s.size() == 0, "witness: disjoint");
    std::mem::forget(s);
    std::mem::forget(pool);
}

/// Subset::add_row_sorted, the two arms that keep the dense representation (what every table scan that appends
/// consecutive rows goes through): appending to an empty range yields exactly {row}; appending the row just past the end
/// yields the old rows plus that row -- nothing else enters, nothing leaves, and the range stays well-formed.
#[kani::proof]
#[kani::unwind(4)]
fn c16_offs_add_row_sorted_dense() {
    let a0: u32 = kani::any();
    let a1: u32 = kani::any();
    let row: u32 = kani::any();
    kani::assume(a0 <= a1 && a1 < 1000 && row < 1000);
    // stay on the arms that do not allocate: empty range, or the row directly after the range
    kani::assume(a0 == a1 || row == a1);
    let mut s = Subset::Dense(OffsetRange::new(r(a0), r(a1)));
    s.add_row_sorted(r(row));
    let x: u32 = kani::any();
    kani::assume(x <= 1000);
    let expect = (a0 <= x && x < a1) || x == row;
    match &s {
        Subset::Dense(rg) => {
            assert!(rg.start <= rg.end);
            assert!((rg.start.rep() <= x && x < rg.end.rep()) == expect, "exactly the old rows plus the new one");
            assert!(s.size() == (a1 - a0) as usize + 1);
        }
        Subset::Sparse(_) => assert!(false, "consecutive appends stay dense"),
    }
    kani::cover!(a0 == a1 && row != a0, "witness: first row of an empty range placed elsewhere");
    kani::cover!(a0 < a1 && row == a1, "witness: extending a non-empty range");
    std::mem::forget(s);
}

/// Offsets::bounds / SubsetRef::size -- the summaries `intersect`, `refine` and the join stages use to reject or size a
/// subset without reading it: None exactly for an empty subset; otherwise a half-open interval that contains every row
/// of the subset and is tight at both ends; size() is the number of rows `offsets` visits.
#[kani::proof]
#[kani::unwind(8)]
fn c16_offs_bounds_and_size() {
    let (a, len) = any_sorted();
    let slice = unsafe { SortedOffsetSlice::new_unchecked(&a[..len]) };
    let sp = SubsetRef::Sparse(slice);
    let mut visited = 0usize;
    sp.offsets(|_| visited += 1);
    assert!(sp.size() == len && visited == len);
    match sp.bounds() {
        None => assert!(len == 0),
        Some((lo, hi)) => {
            assert!(len > 0);
            assert!(lo == a[0], "lower bound is the first row");
            assert!(hi.rep() == a[len - 1].rep() + 1, "upper bound is one past the last row");
            let k: usize = kani::any();
            kani::assume(k < len);
            assert!(lo <= a[k] && a[k] < hi, "every row lies inside the bounds");
        }
    }
    // the owned / borrowed forms agree
    assert!(slice.bounds() == sp.bounds());

    let d0: u32 = kani::any();
    let d1: u32 = kani::any();
    kani::assume(d0 <= d1 && d1 < 1000);
    let dn = SubsetRef::Dense(OffsetRange::new(r(d0), r(d1)));
    assert!(dn.size() == (d1 - d0) as usize);
    match dn.bounds() {
        None => assert!(d0 == d1, "a dense range without bounds is empty"),
        Some((lo, hi)) => {
            let x: u32 = kani::any();
            kani::assume(x < 1000);
            assert!((lo.rep() <= x && x < hi.rep()) == (d0 <= x && x < d1), "dense bounds are the range itself");
        }
    }
    kani::cover!(len == S && a[0] != a[S - 1], "witness: a full slice with distinct ends");
    kani::cover!(len == 1, "witness: singleton slice");
    kani::cover!(d0 < d1, "witness: non-empty dense range");
}

/// OffsetRange::offsets (a full or timestamp-range scan of a table is a walk over a dense range): visits exactly the
/// rows start..end, each once, in increasing order.
#[kani::proof]
#[kani::unwind(7)]
fn c16_offs_dense_range_walk() {
    let d0: u32 = kani::any();
    let n: u32 = kani::any();
    kani::assume(d0 < 1000 && n <= 5);
    let rg = OffsetRange::new(r(d0), r(d0 + n));
    let x: u32 = kani::any();
    kani::assume(x < 1010);
    let mut hits = 0u32;
    let mut count = 0u32;
    let mut sorted = true;
    let mut last: Option<u32> = None;
    SubsetRef::Dense(rg).offsets(|row| {
        count += 1;
        if row.rep() == x {
            hits += 1;
        }
        if let Some(p) = last {
            if p >= row.rep() {
                sorted = false;
            }
        }
        last = Some(row.rep());
    });
    assert!(count == n, "as many rows as the range is long");
    assert!(hits == if d0 <= x && x < d0 + n { 1 } else { 0 }, "a row is visited once iff it is in the range");
    assert!(sorted, "increasing order");
    kani::cover!(n == 5 && x == d0 + 4, "witness: last row of a 5-row range");
    kani::cover!(n == 0, "witness: empty range");
}
