// Included at the end of core-relations/src/row_buffer/mod.rs under cfg(kani).
// Helpers only: build RowBuffer / TaggedRowBuffer values WITHOUT going through the thread-local
// PoolSet (each pool access costs CBMC >= 37 s; filling rows with add_row ran it out of memory).
use super::*;

/// A pool-typed RowBuffer over caller-provided cells. `total_rows` is set directly.
pub(crate) fn kani_rowbuf(n_columns: usize, total_rows: usize, cells: Vec<Cell<Value>>) -> RowBuffer {
    RowBuffer {
        n_columns,
        total_rows,
        data: Pooled::new(cells),
    }
}

/// An empty TaggedRowBuffer whose backing Vec has capacity > 256, so that `Pooled::refresh` keeps it
/// (`Vec::reuse()` is `capacity > 256`) instead of visiting the thread-local pool.
pub(crate) fn kani_tagged(n_columns: usize) -> TaggedRowBuffer {
    TaggedRowBuffer {
        inner: RowBuffer {
            n_columns: n_columns + 1,
            total_rows: 0,
            data: Pooled::new(Vec::with_capacity(300)),
        },
    }
}

pub(crate) fn kani_forget_rowbuf(b: RowBuffer) {
    std::mem::forget(b);
}
pub(crate) fn kani_forget_tagged(b: TaggedRowBuffer) {
    std::mem::forget(b);
}

/// Verification only: initialise, in place, just the two scalar fields of a RowBuffer that `len()` /
/// `arity()` read (the pooled cell vector stays uninitialised and must never be touched or dropped).
pub(crate) unsafe fn kani_write_total_rows(p: *mut RowBuffer, n_columns: usize, n: usize) {
    unsafe {
        std::ptr::addr_of_mut!((*p).n_columns).write(n_columns);
        std::ptr::addr_of_mut!((*p).total_rows).write(n);
    }
}
