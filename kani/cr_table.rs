// placeholder
