// Included at the end of core-relations/src/table/mod.rs under cfg(kani).
// C16.2 / C03.2 — SortedWritesTable's timestamp (sort column) index: `offsets` is the list of
// (sort value, first row id) runs; fast_subset turns a constraint on the sort column into a row range.
//
// The table value comes from the REAL constructor; `offsets` is then overwritten with symbolic runs that
// satisfy the module's own debug-asserted invariant (both components strictly increasing), and the number of
// physical rows is set through a cfg(kani) setter (filling rows with add_row runs CBMC out of memory).
use super::*;

const NROWS: u32 = 6; // physical rows
const NRUNS: usize = 3; // at most three timestamp runs

/// Symbolic table state: `len <= NRUNS` runs (sort value, first row), first run at row 0, all first rows
/// < NROWS, both components strictly increasing.
///
/// The table value is built WITHOUT the real constructor (it allocates sharded hash tables and pooled row
/// buffers: 20+ GB in CBMC): only the fields the index kernels read are initialised -- `sort_by`, `offsets`,
/// `n_keys`, `n_columns`, `data.stale_rows` (symbolic) and the row count behind `data.next_row()`.  The value is only ever used through
/// `&SortedWritesTable` by `fast_subset` / `binary_search_sort_val`, and never dropped.
struct IndexTable {
    mem: std::mem::MaybeUninit<SortedWritesTable>,
}
impl IndexTable {
    fn get(&self) -> &SortedWritesTable {
        unsafe { &*self.mem.as_ptr() }
    }
}

fn any_index_table() -> (IndexTable, [(u32, u32); NRUNS], usize) {
    let mut runs = [(0u32, 0u32); NRUNS];
    let mut offs: Vec<(Value, RowId)> = Vec::with_capacity(NRUNS);
    let mut i = 0;
    while i < NRUNS {
        let sv: u32 = kani::any();
        let fr: u32 = kani::any();
        kani::assume(fr < NROWS);
        if i == 0 {
            kani::assume(fr == 0);
        } else {
            kani::assume(runs[i - 1].0 < sv && runs[i - 1].1 < fr);
        }
        runs[i] = (sv, fr);
        offs.push((Value::new(sv), RowId::new(fr)));
        i += 1;
    }
    let len: usize = kani::any();
    kani::assume(len <= NRUNS);
    offs.truncate(len);
    let mut it = IndexTable { mem: std::mem::MaybeUninit::uninit() };
    let p = it.mem.as_mut_ptr();
    unsafe {
        std::ptr::addr_of_mut!((*p).sort_by).write(Some(ColumnId::new(2)));
        std::ptr::addr_of_mut!((*p).offsets).write(offs);
        std::ptr::addr_of_mut!((*p).n_keys).write(1);
        std::ptr::addr_of_mut!((*p).n_columns).write(3);
        let total = if len == 0 { 0 } else { NROWS as usize };
        crate::row_buffer::verif_kani::kani_write_total_rows(std::ptr::addr_of_mut!((*p).data.data), 3, total);
        // any number of removed / superseded rows not yet compacted away: the physical row count that the
        // offsets index is relative to (data.next_row()) differs from the live-row count (len())
        let stale: usize = kani::any();
        kani::assume(stale <= total);
        std::ptr::addr_of_mut!((*p).data.stale_rows).write(stale);
    }
    (it, runs, len)
}

/// sort value of physical row r (specification side)
fn sort_val_of(runs: &[(u32, u32); NRUNS], len: usize, r: u32) -> u32 {
    let mut v = runs[0].0;
    let mut i = 1;
    while i < NRUNS {
        if i < len && runs[i].1 <= r {
            v = runs[i].0;
        }
        i += 1;
    }
    v
}

fn index_fast_subset_case(kind: u8) {
    let (it, runs, len) = any_index_table();
    let t = it.get();
    let val: u32 = kani::any();
    let col = ColumnId::new(2);
    let c = match kind {
        0 => Constraint::EqConst { col, val: Value::new(val) },
        1 => Constraint::LtConst { col, val: Value::new(val) },
        2 => Constraint::LeConst { col, val: Value::new(val) },
        3 => Constraint::GtConst { col, val: Value::new(val) },
        _ => Constraint::GeConst { col, val: Value::new(val) },
    };
    let n = if len == 0 { 0 } else { NROWS };
    let got = t.fast_subset(&c);
    // `None` (fall back to a filtered scan) is always acceptable; a returned range must be exact.
    if let Some(s) = &got {
        let (lo, hi) = match s {
            Subset::Dense(r) => (r.start.rep(), r.end.rep()),
            Subset::Sparse(_) => {
                assert!(false, "sort-column fast paths return dense ranges");
                (0, 0)
            }
        };
        assert!(lo <= hi || s.size() == 0);
        assert!(hi <= n, "range stays inside the table");
        let mut r = 0u32;
        while r < NROWS {
            if r < n {
                let sv = sort_val_of(&runs, len, r);
                let want = match kind {
                    0 => sv == val,
                    1 => sv < val,
                    2 => sv <= val,
                    3 => sv > val,
                    _ => sv >= val,
                };
                let inside = lo <= r && r < hi;
                assert!(inside == want, "row is in the range iff its sort value satisfies the constraint");
            }
            r += 1;
        }
    }
    kani::cover!(got.is_some() && len == 3, "witness: a range was returned for three runs");
    if let Some(Subset::Dense(rg)) = &got {
        kani::cover!(len == 3 && rg.start.rep() > 0 && rg.end.rep() < NROWS && rg.start.rep() < rg.end.rep(), "info: strict interior range");
        kani::cover!(len == 3 && val == runs[1].0, "info: constant equals a run boundary");
    }
    std::mem::forget(got);
    std::mem::forget(it);
}

macro_rules! index_harness {
    ($name:ident, $k:expr) => {
        #[kani::proof]
        #[kani::unwind(8)]
        fn $name() {
            index_fast_subset_case($k);
        }
    };
}
index_harness!(c03_swt_fast_subset_ge, 4);
index_harness!(c03_swt_fast_subset_lt, 1);
index_harness!(c16_swt_fast_subset_eq, 0);
index_harness!(c16t_swt_fast_subset_le, 2);
index_harness!(c16t_swt_fast_subset_gt, 3);

/// Constraints on other columns, and Eq{..}, have no fast path (None), never a wrong range.
#[kani::proof]
#[kani::unwind(8)]
fn c16_swt_fast_subset_other_cols() {
    let (it, _runs, _len) = any_index_table();
    let t = it.get();
    let val: u32 = kani::any();
    let c0 = ColumnId::new(0);
    assert!(t.fast_subset(&Constraint::EqConst { col: c0, val: Value::new(val) }).is_none());
    assert!(t.fast_subset(&Constraint::GeConst { col: c0, val: Value::new(val) }).is_none());
    assert!(t.fast_subset(&Constraint::LtConst { col: ColumnId::new(1), val: Value::new(val) }).is_none());
    assert!(t.fast_subset(&Constraint::Eq { l_col: c0, r_col: ColumnId::new(2) }).is_none());
    kani::cover!(true, "witness: end of harness reached");
    std::mem::forget(it);
}

/// eval_constraints is the constraint's meaning on a row.
#[kani::proof]
#[kani::unwind(8)]
fn c16_swt_eval_constraints() {
    let row = [Value::new(kani::any()), Value::new(kani::any()), Value::new(kani::any())];
    let col: u32 = kani::any();
    let col2: u32 = kani::any();
    kani::assume(col < 3 && col2 < 3);
    let v: u32 = kani::any();
    let x = row[col as usize];
    let c = ColumnId::new(col);
    assert!(SortedWritesTable::eval_constraints(&[Constraint::EqConst { col: c, val: Value::new(v) }], &row) == (x == Value::new(v)));
    assert!(SortedWritesTable::eval_constraints(&[Constraint::LtConst { col: c, val: Value::new(v) }], &row) == (x < Value::new(v)));
    assert!(SortedWritesTable::eval_constraints(&[Constraint::LeConst { col: c, val: Value::new(v) }], &row) == (x <= Value::new(v)));
    assert!(SortedWritesTable::eval_constraints(&[Constraint::GtConst { col: c, val: Value::new(v) }], &row) == (x > Value::new(v)));
    assert!(SortedWritesTable::eval_constraints(&[Constraint::GeConst { col: c, val: Value::new(v) }], &row) == (x >= Value::new(v)));
    assert!(
        SortedWritesTable::eval_constraints(&[Constraint::Eq { l_col: c, r_col: ColumnId::new(col2) }], &row)
            == (x == row[col2 as usize])
    );
    // a conjunction is the conjunction
    let both = [Constraint::GeConst { col: c, val: Value::new(v) }, Constraint::Eq { l_col: c, r_col: ColumnId::new(col2) }];
    assert!(SortedWritesTable::eval_constraints(&both, &row) == (x >= Value::new(v) && x == row[col2 as usize]));
    kani::cover!(true, "witness: end of harness reached");
}

// ---- the writer of `offsets`: SortChecker ----------------------------------------------------------------
// Inductive step for the index invariant used above: from any well-formed `offsets` (both components strictly
// increasing, first run at row 0), a batch of rows with one sort value `cur >= baseline` appended at row
// `start` (= the old next_row) leaves `offsets` well-formed and makes every appended row belong to a run
// whose sort value is `cur`.
#[kani::proof]
#[kani::unwind(6)]
fn c16_swt_sortchecker_update_offsets() {
    let n: usize = kani::any();
    kani::assume(n <= 2);
    let v0: u32 = kani::any();
    let v1: u32 = kani::any();
    let r1: u32 = kani::any();
    kani::assume(v0 < v1 && 0 < r1 && r1 < 10);
    let mut offsets: Vec<(Value, RowId)> = Vec::with_capacity(4);
    if n >= 1 {
        offsets.push((Value::new(v0), RowId::new(0)));
    }
    if n >= 2 {
        offsets.push((Value::new(v1), RowId::new(r1)));
    }
    // rows already in the table: start is the old next_row, past the first row of the last run
    let start: u32 = kani::any();
    kani::assume(start < 20);
    if n == 0 {
        kani::assume(start == 0);
    } else if n == 1 {
        kani::assume(start > 0);
    } else {
        kani::assume(start > r1);
    }
    let baseline = if n == 0 { None } else { Some(offsets[n - 1].0) };
    let cur: u32 = kani::any();
    let mut chk = SortChecker { col: ColumnId::new(2), baseline, current: None };
    // the batch: two rows with the same sort value (check_local sees every row)
    if let Some(b) = baseline {
        kani::assume(Value::new(cur) >= b);
    }
    let row = [Value::new(kani::any()), Value::new(kani::any()), Value::new(cur)];
    chk.check_local(&row);
    chk.check_local(&row);
    assert!(chk.current == Some(Value::new(cur)));
    let merged = SortChecker::check_global([chk, chk].iter());
    assert!(merged.current == Some(Value::new(cur)) && merged.baseline == baseline);
    merged.update_offsets(RowId::new(start), &mut offsets);
    // invariant preserved
    let m = offsets.len();
    assert!(m >= 1 && m <= 3);
    assert!(offsets[0].1 == RowId::new(0));
    let mut i = 1;
    while i < m {
        assert!(offsets[i - 1].0 < offsets[i].0, "sort values strictly increasing");
        assert!(offsets[i - 1].1 < offsets[i].1, "first rows strictly increasing");
        i += 1;
    }
    // the appended rows (ids >= start) fall in the last run, whose sort value is cur
    assert!(offsets[m - 1].0 == Value::new(cur));
    assert!(offsets[m - 1].1 <= RowId::new(start));
    // nothing already in the table moved to another run
    if n >= 1 {
        assert!(offsets[0] == (Value::new(v0), RowId::new(0)));
    }
    if n >= 2 {
        assert!(offsets[1] == (Value::new(v1), RowId::new(r1)));
    }
    kani::cover!(n == 2 && m == 3, "witness: a new run is opened after two existing ones");
    kani::cover!(n == 2 && m == 2, "witness: the batch extends the last run");
    kani::cover!(n == 0 && m == 1, "witness: first batch of an empty table");
    std::mem::forget(offsets);
}

/// An empty batch (no row seen) leaves offsets alone; check_global of no checkers is the neutral checker.
#[kani::proof]
#[kani::unwind(6)]
fn c16_swt_sortchecker_empty_batch() {
    let v0: u32 = kani::any();
    let mut offsets: Vec<(Value, RowId)> = Vec::with_capacity(2);
    offsets.push((Value::new(v0), RowId::new(0)));
    let chk = SortChecker { col: ColumnId::new(2), baseline: Some(Value::new(v0)), current: None };
    let merged = SortChecker::check_global([chk].iter());
    merged.update_offsets(RowId::new(3), &mut offsets);
    assert!(offsets.len() == 1 && offsets[0] == (Value::new(v0), RowId::new(0)));
    let none = SortChecker::check_global(std::iter::empty::<&SortChecker>());
    none.update_offsets(RowId::new(3), &mut offsets);
    assert!(offsets.len() == 1);
    kani::cover!(true, "witness: end of harness reached");
    std::mem::forget(offsets);
}

// ---- C05 (kernel): StagedOutputs::insert -- collisions INSIDE one batch fold the merge function -------------
// The staging buffer used by the parallel insert path merges rows that hit the same key within one flush.
// For a lattice merge (here: min on the value column, with the callback contract "return true and write `out`
// iff the result differs from the FIRST argument, the row currently held") the live row for the key must hold
// the merge of everything staged, whatever the order.  Concrete key (one hash bucket), symbolic values.
fn staged_min_case(n_writes: usize) {
    let mut so = StagedOutputs {
        shard_data: ShardData::new(1),
        n_keys: 1,
        hash: Pooled::new(HashTable::new()),
        rows: crate::row_buffer::verif_kani::kani_rowbuf(3, 0, Vec::with_capacity(300)),
        n_stale: 0,
        scratch: Pooled::new(Vec::with_capacity(300)),
    };
    let mut vals = [0u32; 3];
    let mut best = u32::MAX;
    let mut i = 0;
    while i < n_writes {
        let x: u32 = kani::any();
        kani::assume(x < 1000);
        vals[i] = x;
        if x < best {
            best = x;
        }
        let row = [Value::new(5), Value::new(x), Value::new(10 + i as u32)];
        so.insert(&row, |cur, new, out| {
            // min-merge with the documented contract: changed relative to `cur`
            if new[1] < cur[1] {
                out.push(cur[0]);
                out.push(new[1]);
                out.push(new[2]);
                true
            } else {
                false
            }
        });
        i += 1;
    }
    assert!(so.len() == 1, "one live row per key");
    // the live row
    let mut live = 0;
    let mut found = u32::MAX;
    for r in so.rows() {
        if !r[0].is_stale() {
            live += 1;
            assert!(r[0] == Value::new(5));
            found = r[1].rep();
        }
    }
    assert!(live == 1);
    assert!(found == best, "the staged value is the merge (min) of everything written to the key in this batch");
    kani::cover!(n_writes >= 2 && vals[1] < vals[0], "witness: the better value arrives second");
    kani::cover!(n_writes >= 2 && vals[1] > vals[0], "witness: the better value arrives first");
    std::mem::forget(so);
}

#[kani::proof]
#[kani::unwind(8)]
fn c05_staged_outputs_min_two_writes() {
    staged_min_case(2);
}

#[kani::proof]
#[kani::unwind(8)]
fn c05t_staged_outputs_min_three_writes() {
    staged_min_case(3);
}
