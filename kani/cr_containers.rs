// Included at the end of core-relations/src/containers/mod.rs under cfg(kani).
// C03 (kernel): ContainerValues::expand_dirty_id_closure -- the set of container ids whose rows must be
// re-timestamped after an in-place container rebuild is closed under "is contained in", to a fixed point
// (a container nested k levels above a changed one is dirty too, for every k).
use super::*;

const NC: usize = 3;

#[derive(Clone)]
struct MockEnv {
    // parent[c][p]: container value p directly contains value c (only p > c: containment is acyclic)
    parent: [[bool; NC]; NC],
}

impl DynamicContainerEnv for MockEnv {
    fn as_any(&self) -> &dyn Any {
        self
    }
    fn apply_rebuild(
        &mut self,
        _table: &WrappedTable,
        _rebuilder: &dyn Rebuilder,
        _subset: Option<SubsetRef>,
        _exec_state: &mut ExecutionState,
    ) -> ContainerRebuildSummary {
        Default::default()
    }
    fn extend_containers_containing(&self, values: &IndexSet<Value>, out: &mut IndexSet<Value>) {
        for v in values {
            let c = v.index();
            let mut p = 0;
            while p < NC {
                if c < NC && self.parent[c][p] {
                    out.insert(Value::new(p as u32));
                }
                p += 1;
            }
        }
    }
    fn rebuild_val_with(
        &self,
        _value: Value,
        _exec_state: &mut ExecutionState,
        _remap: &(dyn Fn(Value) -> Value + Send + Sync),
    ) -> Option<Value> {
        None
    }
}

#[kani::proof]
#[kani::unwind(7)]
fn c03_containers_dirty_closure_is_transitive() {
    let mut parent = [[false; NC]; NC];
    let mut c = 0;
    while c < NC {
        let mut p = c + 1;
        while p < NC {
            parent[c][p] = kani::any();
            p += 1;
        }
        c += 1;
    }
    let mut cv = ContainerValues::new();
    cv.data.insert(ContainerValueId::new(0), Box::new(MockEnv { parent }));
    // initially dirty: value 0, and possibly value 1
    let d1: bool = kani::any();
    let mut summary = ContainerRebuildSummary::default();
    summary.note_dirty_id(Value::new(0));
    if d1 {
        summary.note_dirty_id(Value::new(1));
    }
    cv.expand_dirty_id_closure(&mut summary);
    // specification: reachability along `parent`, in id order (acyclic)
    let mut reach = [false; NC];
    reach[0] = true;
    reach[1] = d1;
    let mut p = 1;
    while p < NC {
        let mut c = 0;
        while c < p {
            if reach[c] && parent[c][p] {
                reach[p] = true;
            }
            c += 1;
        }
        p += 1;
    }
    let mut p = 0;
    while p < NC {
        assert!(summary.dirty_ids().contains(&Value::new(p as u32)) == reach[p], "dirty ids = everything that transitively contains a dirty id");
        p += 1;
    }
    kani::cover!(reach[2] && !parent[0][2] && parent[1][2] && parent[0][1] && !d1,
        "witness: a chain two levels above the dirty id");
    std::mem::forget(summary);
    std::mem::forget(cv);
}
