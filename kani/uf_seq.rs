// C17 (sequential) — included at the end of union-find/src/lib.rs under cfg(kani).
// `super::*` is the real crate root: `UnionFind`, its private `parents` field.
//
// Scheme: the whole parent forest is symbolic under Inv (parents[i] <= i);
// one real operation runs with concrete (case-split) id arguments; the exact
// abstract post-condition on the partition is asserted. See DESIGN.md §C17.
use super::*;

pub(crate) const N: usize = 5;

/// Arbitrary forest of `n` ids satisfying the representation invariant.
pub(crate) fn any_forest(n: usize) -> UnionFind<usize> {
    let mut parents = Vec::with_capacity(n);
    for i in 0..n {
        let p: usize = kani::any();
        kani::assume(p <= i);
        parents.push(p);
    }
    UnionFind { parents }
}

/// Abstract root: follow parents at most `n` steps (enough under Inv).
pub(crate) fn root_of(p: &[usize], mut i: usize) -> usize {
    let n = p.len();
    let mut k = 0;
    while k < n {
        let q = p[i];
        if q == i {
            return i;
        }
        i = q;
        k += 1;
    }
    i
}

fn inv(p: &[usize], n: usize) -> bool {
    if p.len() != n {
        return false;
    }
    let mut i = 0;
    while i < n {
        if p[i] > i {
            return false;
        }
        i += 1;
    }
    true
}

fn snapshot_roots(p: &[usize]) -> [usize; N] {
    let mut r = [0usize; N];
    let mut i = 0;
    while i < N {
        r[i] = root_of(p, i);
        i += 1;
    }
    r
}

fn union_step(a: usize, b: usize) {
    let mut uf = any_forest(N);
    let before = snapshot_roots(&uf.parents);
    let (ra, rb) = (before[a], before[b]);
    let (parent, child) = uf.union(a, b);
    assert!(inv(&uf.parents, N));
    if ra == rb {
        assert!(parent == ra && child == ra);
    } else {
        assert!(parent == cmp::min(ra, rb));
        assert!(child == cmp::max(ra, rb));
    }
    let after = snapshot_roots(&uf.parents);
    let m = cmp::min(ra, rb);
    let mut i = 0;
    while i < N {
        let expect = if before[i] == ra || before[i] == rb { m } else { before[i] };
        assert!(after[i] == expect);
        assert!(after[i] <= i);
        i += 1;
    }
    kani::cover!(true, "witness: end of harness reached");
    kani::cover!(ra != rb, "info: a real merge happens");
    kani::cover!(ra == rb && a != b, "info: already-equal, distinct ids");
}

macro_rules! union_harness {
    ($name:ident, $a:expr, $b:expr) => {
        #[kani::proof]
        #[kani::unwind(7)]
        fn $name() {
            union_step($a, $b);
        }
    };
}
union_harness!(c17_seq_union_0_0, 0, 0);
union_harness!(c17_seq_union_0_1, 0, 1);
union_harness!(c17_seq_union_0_2, 0, 2);
union_harness!(c17_seq_union_0_3, 0, 3);
union_harness!(c17_seq_union_0_4, 0, 4);
union_harness!(c17_seq_union_1_0, 1, 0);
union_harness!(c17_seq_union_1_1, 1, 1);
union_harness!(c17_seq_union_1_2, 1, 2);
union_harness!(c17_seq_union_1_3, 1, 3);
union_harness!(c17_seq_union_1_4, 1, 4);
union_harness!(c17_seq_union_2_0, 2, 0);
union_harness!(c17_seq_union_2_1, 2, 1);
union_harness!(c17_seq_union_2_2, 2, 2);
union_harness!(c17_seq_union_2_3, 2, 3);
union_harness!(c17_seq_union_2_4, 2, 4);
union_harness!(c17_seq_union_3_0, 3, 0);
union_harness!(c17_seq_union_3_1, 3, 1);
union_harness!(c17_seq_union_3_2, 3, 2);
union_harness!(c17_seq_union_3_3, 3, 3);
union_harness!(c17_seq_union_3_4, 3, 4);
union_harness!(c17_seq_union_4_0, 4, 0);
union_harness!(c17_seq_union_4_1, 4, 1);
union_harness!(c17_seq_union_4_2, 4, 2);
union_harness!(c17_seq_union_4_3, 4, 3);
union_harness!(c17_seq_union_4_4, 4, 4);

fn find_step(a: usize) {
    let mut uf = any_forest(N);
    let before = snapshot_roots(&uf.parents);
    let naive = uf.find_naive(a);
    assert!(naive == before[a]);
    // find_naive takes &self: nothing may have moved
    let mid = snapshot_roots(&uf.parents);
    let mut i = 0;
    while i < N {
        assert!(mid[i] == before[i]);
        i += 1;
    }
    let r = uf.find(a);
    assert!(r == before[a]);
    assert!(inv(&uf.parents, N));
    let after = snapshot_roots(&uf.parents);
    let mut i = 0;
    while i < N {
        assert!(after[i] == before[i]);
        i += 1;
    }
    kani::cover!(true, "witness: end of harness reached");
    kani::cover!(r != a && uf.parents[a] != r, "info: halving did not fully compress");
    kani::cover!(r != a, "info: non-root argument");
}

macro_rules! find_harness {
    ($name:ident, $a:expr) => {
        #[kani::proof]
        #[kani::unwind(7)]
        fn $name() {
            find_step($a);
        }
    };
}
find_harness!(c17_seq_find_0, 0);
find_harness!(c17_seq_find_1, 1);
find_harness!(c17_seq_find_2, 2);
find_harness!(c17_seq_find_3, 3);
find_harness!(c17_seq_find_4, 4);

/// Base case of the induction: the constructors give the identity forest.
#[kani::proof]
#[kani::unwind(7)]
fn c17_seq_base_default_reserve_reset() {
    let mut uf = UnionFind::<usize>::default();
    assert!(uf.parents.is_empty());
    // find_naive past the end returns its argument and does not grow
    assert!(uf.find_naive(3) == 3);
    assert!(uf.parents.is_empty());
    uf.reserve(N - 1);
    assert!(inv(&uf.parents, N));
    let mut i = 0;
    while i < N {
        assert!(uf.parents[i] == i);
        i += 1;
    }
    // reserve of something already there is a no-op
    uf.reserve(2);
    assert!(uf.parents.len() == N);
    kani::cover!(true, "witness");
}

#[kani::proof]
#[kani::unwind(7)]
fn c17_seq_reset_from_any() {
    let mut uf = any_forest(N);
    uf.reset();
    assert!(uf.parents.len() == N);
    let mut i = 0;
    while i < N {
        assert!(uf.parents[i] == i);
        assert!(uf.find_naive(i) == i);
        i += 1;
    }
    kani::cover!(true, "witness");
}

/// Growth path: union / find with an argument one past the end (concrete target).
fn grow_union(a: usize, b: usize) {
    // forest of N-1 ids, argument N-1 is new
    let mut uf = any_forest(N - 1);
    let mut before = [0usize; N];
    let mut i = 0;
    while i < N - 1 {
        before[i] = root_of(&uf.parents, i);
        i += 1;
    }
    before[N - 1] = N - 1;
    let (ra, rb) = (before[a], before[b]);
    let (parent, child) = uf.union(a, b);
    assert!(inv(&uf.parents, N));
    assert!(parent == cmp::min(ra, rb));
    if ra != rb {
        assert!(child == cmp::max(ra, rb));
    } else {
        assert!(child == ra);
    }
    let after = snapshot_roots(&uf.parents);
    let m = cmp::min(ra, rb);
    let mut i = 0;
    while i < N {
        let expect = if before[i] == ra || before[i] == rb { m } else { before[i] };
        assert!(after[i] == expect);
        i += 1;
    }
    kani::cover!(true, "witness");
}

#[kani::proof]
#[kani::unwind(7)]
fn c17_seq_grow_union_new_right() {
    grow_union(1, N - 1);
}
#[kani::proof]
#[kani::unwind(7)]
fn c17_seq_grow_union_new_left() {
    grow_union(N - 1, 2);
}
#[kani::proof]
#[kani::unwind(7)]
fn c17_seq_grow_union_new_both() {
    grow_union(N - 1, N - 1);
}

#[kani::proof]
#[kani::unwind(7)]
fn c17_seq_grow_find_new() {
    let mut uf = any_forest(N - 1);
    let mut before = [0usize; N];
    let mut i = 0;
    while i < N - 1 {
        before[i] = root_of(&uf.parents, i);
        i += 1;
    }
    let r = uf.find(N - 1);
    assert!(r == N - 1);
    assert!(inv(&uf.parents, N));
    let mut i = 0;
    while i < N - 1 {
        assert!(root_of(&uf.parents, i) == before[i]);
        i += 1;
    }
    kani::cover!(true, "witness");
}

/// Two successive unions with concrete arguments from an arbitrary forest:
/// transitivity of the partition update (a ~ b, b ~ c  =>  a ~ c) on the real code.
#[kani::proof]
#[kani::unwind(7)]
fn c17_seq_two_unions_transitive() {
    let mut uf = any_forest(N);
    let before = snapshot_roots(&uf.parents);
    uf.union(4, 2);
    uf.union(2, 3);
    let after = snapshot_roots(&uf.parents);
    assert!(after[4] == after[2] && after[2] == after[3]);
    let m = cmp::min(before[4], cmp::min(before[2], before[3]));
    assert!(after[4] == m);
    let mut i = 0;
    while i < N {
        let touched = before[i] == before[4] || before[i] == before[2] || before[i] == before[3];
        assert!(after[i] == if touched { m } else { before[i] });
        i += 1;
    }
    kani::cover!(before[4] != before[2] && before[2] != before[3] && before[4] != before[3], "witness: three classes merged");
}

// ---- cfg(kani)-only constructor used by the core-relations / bridge harnesses ----
impl<V> super::UnionFind<V> {
    /// Build a union-find directly from a parent vector (verification only).
    pub fn kani_from_parents(parents: Vec<V>) -> Self {
        super::UnionFind { parents }
    }
    pub fn kani_parents(&self) -> &[V] {
        &self.parents
    }
}
