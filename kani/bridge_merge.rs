// Included at the end of egglog-bridge/src/lib.rs under cfg(kani).
// C05 (merge-expression interpreter, every arm), C01.2 (UnionId agrees with the union-find), C13 (subsume
// flag algebra, schema column arithmetic).
//
// ExecutionState::{stage_insert, call_external_func} and TableAction::lookup_or_insert are replaced by
// recorders: the real ones reach NotificationList / ArcSwap (Kani compiler crash) and the tables' hash paths.
use super::*;
use crate::core_relations::{Database, ExecutionState};

fn v(x: u32) -> Value {
    Value::new(x)
}

// ---- recorders ---------------------------------------------------------------------------------
static mut N_STAGED: u32 = 0;
static mut STAGED_TABLE: u32 = 0;
static mut STAGED_ROW: [u32; 3] = [0; 3];
static mut STAGED_LEN: usize = 0;

const PANIC_FN: u32 = 90;
const PRIM_OUTER: u32 = 91;
const PRIM_INNER: u32 = 92;
static mut N_PANIC: u32 = 0;
static mut N_OUTER: u32 = 0;
static mut N_INNER: u32 = 0;
static mut OUTER_ARGS: [u32; 2] = [0; 2];
static mut OUTER_NARGS: usize = 0;
static mut INNER_ARGS: [u32; 2] = [0; 2];
static mut INNER_NARGS: usize = 0;
static mut OUTER_RET: Option<u32> = None;
static mut INNER_RET: Option<u32> = None;
static mut N_LOOKUP: u32 = 0;
static mut LOOKUP_ARGS: [u32; 2] = [0; 2];
static mut LOOKUP_NARGS: usize = 0;
static mut LOOKUP_RET: Option<u32> = None;
static mut ORDER_OK: bool = true; // inner primitive is evaluated before the outer one is called

fn rec_stage_insert<'a>(_s: &mut ExecutionState<'a>, table: TableId, row: &[Value])
where
    'a: 'a,
{
    unsafe {
        N_STAGED += 1;
        STAGED_TABLE = table.rep();
        STAGED_LEN = row.len();
        let mut i = 0;
        while i < 3 && i < row.len() {
            STAGED_ROW[i] = row[i].rep();
            i += 1;
        }
    }
}

fn rec_call_external<'a>(_s: &mut ExecutionState<'a>, func: ExternalFunctionId, args: &[Value]) -> Option<Value>
where
    'a: 'a,
{
    unsafe {
        if func.rep() == PANIC_FN {
            N_PANIC += 1;
            assert!(args.is_empty());
            None
        } else if func.rep() == PRIM_OUTER {
            N_OUTER += 1;
            OUTER_NARGS = args.len();
            let mut i = 0;
            while i < 2 && i < args.len() {
                OUTER_ARGS[i] = args[i].rep();
                i += 1;
            }
            { let r = OUTER_RET; r.map(Value::new) }
        } else if func.rep() == PRIM_INNER {
            if N_OUTER != 0 {
                ORDER_OK = false;
            }
            N_INNER += 1;
            INNER_NARGS = args.len();
            let mut i = 0;
            while i < 2 && i < args.len() {
                INNER_ARGS[i] = args[i].rep();
                i += 1;
            }
            { let r = INNER_RET; r.map(Value::new) }
        } else {
            assert!(false, "unexpected external function");
            None
        }
    }
}

fn rec_lookup_or_insert(_t: &TableAction, _s: &mut ExecutionState, key: &[Value]) -> Option<Value> {
    unsafe {
        N_LOOKUP += 1;
        LOOKUP_NARGS = key.len();
        let mut i = 0;
        while i < 2 && i < key.len() {
            LOOKUP_ARGS[i] = key[i].rep();
            i += 1;
        }
        { let r = LOOKUP_RET; r.map(Value::new) }
    }
}

fn any_opt() -> Option<u32> {
    if kani::any() {
        Some(kani::any())
    } else {
        None
    }
}

impl TableAction {
    /// Verification only: a handle that is never dereferenced (lookup_or_insert is stubbed).
    pub fn kani_dummy() -> TableAction {
        TableAction {
            table: TableId::new(3),
            identity: crate::core_relations::TableIdentity::kani_new(0),
            name: Arc::from("f"),
            table_math: SchemaMath { subsume: false, func_cols: 3 },
            default: None,
            timestamp: CounterId::new(0),
            kind: TableKind::Function,
        }
    }
}

/// One Database / ExecutionState per harness (constructing one costs CBMC ~10 s and several GB).
fn with_state<R>(f: impl FnOnce(&mut ExecutionState) -> R) -> R {
    let db = Database::default();
    let out = db.with_execution_state(None, f);
    std::mem::forget(db);
    out
}

fn run_merge(m: &ResolvedMergeFn, cur: u32, new: u32, ts: u32) -> u32 {
    with_state(|st| m.run(st, v(cur), v(new), v(ts))).rep()
}

// ---- C01.2: "THIS MUST MATCH THE UNION-FIND IMPLEMENTATION" -----------------------------------
#[kani::proof]
#[kani::unwind(7)]
#[kani::stub(crate::core_relations::ExecutionState::stage_insert, rec_stage_insert)]
#[kani::stub(crate::core_relations::ExecutionState::call_external_func, rec_call_external)]
#[kani::stub(TableAction::lookup_or_insert, rec_lookup_or_insert)]
fn c01_bridge_unionid_agrees_with_union_find() {
    let cur: u32 = kani::any();
    let new: u32 = kani::any();
    let ts: u32 = kani::any();
    let m = ResolvedMergeFn::UnionId { uf_table: TableId::new(7) };
    let out = run_merge(&m, cur, new, ts);
    unsafe {
        if cur != new {
            assert!(N_STAGED == 1, "a conflict stages exactly one union");
            assert!(STAGED_TABLE == 7 && STAGED_LEN == 3);
            assert!(STAGED_ROW[0] == cur && STAGED_ROW[1] == new && STAGED_ROW[2] == ts);
        } else {
            assert!(N_STAGED == 0, "no union when the ids are already equal");
        }
        assert!(N_PANIC == 0 && N_LOOKUP == 0);
    }
    assert!(out == cur || out == new, "the id kept is one of the two");
    // the id kept is the parent the REAL union-find picks for the same union (ids < 4, identity forest);
    // arguments case-split so that nothing symbolic reaches UnionFind::reserve
    macro_rules! agree {
        ($a:expr, $b:expr) => {
            if cur == $a && new == $b {
                let mut uf = egglog_union_find::UnionFind::<Value>::kani_from_parents(vec![v(0), v(1), v(2), v(3)]);
                let (parent, child) = uf.union(v($a), v($b));
                assert!(v(out) == parent, "the row keeps the id the union-find makes the representative");
                if $a != $b {
                    assert!(child != parent);
                }
                std::mem::forget(uf);
            }
        };
    }
    agree!(1, 2);
    agree!(3, 1);
    agree!(2, 2);
    kani::cover!(cur == 3 && new == 1, "witness: a case compared against the real union-find");
    kani::cover!(cur > 1000 && new < cur, "witness: arbitrary ids");
}

/// Order independence of the id kept (same pair, both orders), for arbitrary u32 ids.
#[kani::proof]
#[kani::unwind(7)]
#[kani::stub(crate::core_relations::ExecutionState::stage_insert, rec_stage_insert)]
#[kani::stub(crate::core_relations::ExecutionState::call_external_func, rec_call_external)]
#[kani::stub(TableAction::lookup_or_insert, rec_lookup_or_insert)]
fn c01_bridge_unionid_symmetric() {
    let a: u32 = kani::any();
    let b: u32 = kani::any();
    let m = ResolvedMergeFn::UnionId { uf_table: TableId::new(7) };
    let (o1, o2) = with_state(|st| (m.run(st, v(a), v(b), v(5)), m.run(st, v(b), v(a), v(5))));
    assert!(o1 == o2);
    kani::cover!(a != b, "witness: distinct ids");
}

// ---- C05: leaf arms ---------------------------------------------------------------------------
#[kani::proof]
#[kani::unwind(7)]
#[kani::stub(crate::core_relations::ExecutionState::stage_insert, rec_stage_insert)]
#[kani::stub(crate::core_relations::ExecutionState::call_external_func, rec_call_external)]
#[kani::stub(TableAction::lookup_or_insert, rec_lookup_or_insert)]
fn c05_bridge_merge_leaf_arms() {
    let cur: u32 = kani::any();
    let new: u32 = kani::any();
    let ts: u32 = kani::any();
    let c: u32 = kani::any();
    let out = with_state(|st| {
        assert!(ResolvedMergeFn::Old.run(st, v(cur), v(new), v(ts)) == v(cur));
        assert!(ResolvedMergeFn::New.run(st, v(cur), v(new), v(ts)) == v(new));
        assert!(ResolvedMergeFn::Const(v(c)).run(st, v(cur), v(new), v(ts)) == v(c));
        unsafe {
            assert!(N_PANIC == 0 && N_STAGED == 0 && N_LOOKUP == 0);
        }
        // :no-merge -- a conflict raises the panic function, never silently keeps either value
        ResolvedMergeFn::AssertEq { panic: ExternalFunctionId::new(PANIC_FN) }.run(st, v(cur), v(new), v(ts))
    })
    .rep();
    assert!(out == cur);
    unsafe {
        assert!((N_PANIC == 1) == (cur != new), "the panic function runs iff the two values differ");
        assert!(N_PANIC <= 1 && N_STAGED == 0 && N_LOOKUP == 0);
    }
    kani::cover!(cur != new, "witness: conflicting values");
    kani::cover!(cur == new, "witness: agreeing values");
}

// ---- C05: primitive merge (e.g. min / max / or): evaluated on (cur,new), failure panics and keeps cur
// NOT RUN by any tier (c05x_): every harness in which `run` recurses into an argument vector
// (`args.iter().map(|a| a.run(..)).collect()`) did not finish under CBMC (> 15 min, 4-6 GB), also with a
// pushed Vec, unwind 4 and concrete operands.  The Primitive and Function arms are outside the C05 claim.
#[kani::proof]
#[kani::unwind(7)]
#[kani::stub(crate::core_relations::ExecutionState::stage_insert, rec_stage_insert)]
#[kani::stub(crate::core_relations::ExecutionState::call_external_func, rec_call_external)]
#[kani::stub(TableAction::lookup_or_insert, rec_lookup_or_insert)]
fn c05x_bridge_merge_primitive_not_run() {
    let cur: u32 = kani::any();
    let new: u32 = kani::any();
    let ts: u32 = kani::any();
    let swap: bool = kani::any();
    let ret = any_opt();
    unsafe {
        OUTER_RET = ret;
    }
    let args = if swap {
        vec![ResolvedMergeFn::New, ResolvedMergeFn::Old]
    } else {
        vec![ResolvedMergeFn::Old, ResolvedMergeFn::New]
    };
    let m = ResolvedMergeFn::Primitive {
        prim: ExternalFunctionId::new(PRIM_OUTER),
        args,
        panic: ExternalFunctionId::new(PANIC_FN),
    };
    let out = run_merge(&m, cur, new, ts);
    unsafe {
        assert!(N_OUTER == 1 && OUTER_NARGS == 2);
        if swap {
            assert!(OUTER_ARGS[0] == new && OUTER_ARGS[1] == cur);
        } else {
            assert!(OUTER_ARGS[0] == cur && OUTER_ARGS[1] == new);
        }
        match ret {
            Some(r) => {
                assert!(out == r && N_PANIC == 0);
            }
            None => {
                assert!(out == cur && N_PANIC == 1);
            }
        }
        assert!(N_STAGED == 0 && N_LOOKUP == 0);
    }
    kani::cover!(ret.is_none(), "witness: failing primitive");
    kani::cover!(ret.is_some() && swap, "witness: (f new old)");
    std::mem::forget(m);
}

// ---- C05: nesting -- (outer (inner new c) old)
#[kani::proof]
#[kani::unwind(7)]
#[kani::stub(crate::core_relations::ExecutionState::stage_insert, rec_stage_insert)]
#[kani::stub(crate::core_relations::ExecutionState::call_external_func, rec_call_external)]
#[kani::stub(TableAction::lookup_or_insert, rec_lookup_or_insert)]
fn c05x_bridge_merge_nested_primitive_not_run() {
    let cur: u32 = kani::any();
    let new: u32 = kani::any();
    let ts: u32 = kani::any();
    let c: u32 = kani::any();
    let iret = any_opt();
    let oret = any_opt();
    unsafe {
        INNER_RET = iret;
        OUTER_RET = oret;
    }
    let inner = ResolvedMergeFn::Primitive {
        prim: ExternalFunctionId::new(PRIM_INNER),
        args: vec![ResolvedMergeFn::New, ResolvedMergeFn::Const(v(c))],
        panic: ExternalFunctionId::new(PANIC_FN),
    };
    let m = ResolvedMergeFn::Primitive {
        prim: ExternalFunctionId::new(PRIM_OUTER),
        args: vec![inner, ResolvedMergeFn::Old],
        panic: ExternalFunctionId::new(PANIC_FN),
    };
    let out = run_merge(&m, cur, new, ts);
    unsafe {
        assert!(N_INNER == 1 && INNER_NARGS == 2 && INNER_ARGS[0] == new && INNER_ARGS[1] == c);
        assert!(ORDER_OK, "arguments are evaluated before the primitive is applied");
        assert!(N_OUTER == 1 && OUTER_NARGS == 2);
        // the inner node's value: its result, or (on failure) cur after a panic
        let inner_val = match iret {
            Some(r) => r,
            None => cur,
        };
        assert!(OUTER_ARGS[0] == inner_val && OUTER_ARGS[1] == cur);
        let expect_panics = (if iret.is_none() { 1 } else { 0 }) + (if oret.is_none() { 1 } else { 0 });
        assert!(N_PANIC == expect_panics);
        match oret {
            Some(r) => assert!(out == r),
            None => assert!(out == cur),
        }
    }
    kani::cover!(iret.is_some() && oret.is_some(), "witness: both succeed");
    kani::cover!(iret.is_none(), "witness: inner primitive fails");
    std::mem::forget(m);
}

// ---- C05: function-valued merge: (f old new) looked up (or inserted) in table f
// NOT RUN by any tier (name prefix c05x_): CBMC did not finish this harness in 5 minutes even with concrete
// operands and an empty argument list; the Function arm is therefore outside the C05 claim (DESIGN.md §2 C05).
#[kani::proof]
#[kani::unwind(7)]
#[kani::stub(crate::core_relations::ExecutionState::stage_insert, rec_stage_insert)]
#[kani::stub(crate::core_relations::ExecutionState::call_external_func, rec_call_external)]
#[kani::stub(TableAction::lookup_or_insert, rec_lookup_or_insert)]
fn c05x_bridge_merge_function_not_run() {
    let cur: u32 = kani::any();
    let new: u32 = kani::any();
    let ts: u32 = kani::any();
    let ret = any_opt();
    unsafe {
        LOOKUP_RET = ret;
    }
    let m = ResolvedMergeFn::Function {
        func: TableAction::kani_dummy(),
        args: vec![ResolvedMergeFn::Old, ResolvedMergeFn::New],
        panic: ExternalFunctionId::new(PANIC_FN),
    };
    let out = run_merge(&m, cur, new, ts);
    unsafe {
        if cur != new {
            assert!(N_LOOKUP == 1 && LOOKUP_NARGS == 2 && LOOKUP_ARGS[0] == cur && LOOKUP_ARGS[1] == new);
            match ret {
                Some(r) => assert!(out == r && N_PANIC == 0),
                None => assert!(out == cur && N_PANIC == 1),
            }
        } else {
            // idempotence short-cut (today): equal values are kept without consulting f; a lookup is also fine
            assert!(N_LOOKUP <= 1);
            if N_LOOKUP == 0 {
                assert!(out == cur && N_PANIC == 0);
            }
        }
        assert!(N_STAGED == 0);
    }
    kani::cover!(cur != new && ret.is_none(), "witness: failed lookup on a conflict");
    kani::cover!(cur == new, "witness: equal values");
    std::mem::forget(m);
}

// ---- C13: subsume-flag algebra and column arithmetic ----------------------------------------------
#[kani::proof]
fn c13_bridge_combine_subsumed() {
    let a: bool = kani::any();
    let b: bool = kani::any();
    let fa = if a { SUBSUMED } else { NOT_SUBSUMED };
    let fb = if b { SUBSUMED } else { NOT_SUBSUMED };
    let r = combine_subsumed(fa, fb);
    // SUBSUMED is absorbing, in either order: merging a subsumed row with a congruent one stays subsumed
    assert!((r == SUBSUMED) == (a || b));
    assert!((r == NOT_SUBSUMED) == (!a && !b));
    assert!(combine_subsumed(fb, fa) == r);
    assert!(combine_subsumed(fa, fa) == fa);
    assert!(SUBSUMED != NOT_SUBSUMED);
    kani::cover!(a && !b, "witness: subsumed merged with not-subsumed");
}

fn schema_math_case(func_cols: usize) {
    let subsume: bool = kani::any();
    let sm = SchemaMath { subsume, func_cols };
    assert!(sm.num_keys() == func_cols - 1);
    assert!(sm.ret_val_col() == func_cols - 1);
    assert!(sm.ts_col() == func_cols);
    assert!(sm.table_columns() == func_cols + 1 + if subsume { 1 } else { 0 });
    if subsume {
        assert!(sm.subsume_col() == func_cols + 1);
        assert!(sm.subsume_col() == sm.table_columns() - 1);
    }
    // write_table_row: keys and an already-present return value are kept, ts / subsume land in their columns
    let mut row: Vec<u32> = Vec::with_capacity(10);
    let mut i = 0;
    while i < func_cols {
        row.push(100 + i as u32);
        i += 1;
    }
    let overwrite_ret: bool = kani::any();
    sm.write_table_row(
        &mut row,
        RowVals {
            timestamp: 7u32,
            subsume: if subsume { Some(9u32) } else { None },
            ret_val: if overwrite_ret { Some(55u32) } else { None },
        },
    );
    assert!(row.len() == sm.table_columns());
    let mut i = 0;
    while i + 1 < func_cols {
        assert!(row[i] == 100 + i as u32);
        i += 1;
    }
    assert!(row[func_cols - 1] == if overwrite_ret { 55 } else { 100 + (func_cols as u32 - 1) });
    assert!(row[sm.ts_col()] == 7);
    if subsume {
        assert!(row[sm.subsume_col()] == 9);
    }
    kani::cover!(subsume, "witness: a table with subsumption");
    kani::cover!(!subsume && overwrite_ret, "witness: no subsumption, return value filled in");
    std::mem::forget(row);
}

#[kani::proof]
#[kani::unwind(10)]
fn c13_bridge_schema_math_1() {
    schema_math_case(1);
}
#[kani::proof]
#[kani::unwind(10)]
fn c13_bridge_schema_math_3() {
    schema_math_case(3);
}
#[kani::proof]
#[kani::unwind(10)]
fn c13t_bridge_schema_math_2() {
    schema_math_case(2);
}
#[kani::proof]
#[kani::unwind(10)]
fn c13t_bridge_schema_math_5() {
    schema_math_case(5);
}
