// Included at the end of core-relations/src/free_join/mod.rs under cfg(kani). Constructor only.
use super::*;

impl TableIdentity {
    /// Verification only: a table identity with a chosen number (the real ones come from a global counter).
    #[doc(hidden)]
    pub fn kani_new(x: usize) -> Self {
        TableIdentity(x)
    }
}
