// Included at the end of core-relations/src/uf/mod.rs under cfg(kani).
// C16.1 (DisplacedTable index arithmetic), C03.2 (ts >= t / ts < t row ranges), C01.3 (Canonicalizer).
use super::*;
use crate::row_buffer::verif_kani::{kani_forget_rowbuf, kani_forget_tagged, kani_rowbuf, kani_tagged};
use std::cell::Cell;

const NID: usize = 4; // ids in the union-find
const L: usize = 3; // displaced rows (max)

fn v(x: u32) -> Value {
    Value::new(x)
}

/// Arbitrary forest over NID ids under Inv (parents[i] <= i).
fn any_uf() -> (UnionFind, [u32; NID]) {
    let mut ps = [0u32; NID];
    let mut vec = Vec::with_capacity(NID);
    let mut i = 0;
    while i < NID {
        let p: u32 = kani::any();
        kani::assume(p as usize <= i);
        ps[i] = p;
        vec.push(v(p));
        i += 1;
    }
    (UnionFind::kani_from_parents(vec), ps)
}

fn root(ps: &[u32; NID], x: u32) -> u32 {
    if x as usize >= NID {
        return x;
    }
    let a = ps[x as usize];
    let b = ps[a as usize];
    ps[b as usize]
}

/// Arbitrary DisplacedTable state: forest, `len <= L` displaced rows with non-decreasing timestamps.
/// The hash `lookup_table` is left empty (its paths are exercised by the *_clear_* harnesses only).
fn any_table() -> (DisplacedTable, [u32; NID], [(u32, u32); L], usize) {
    let (uf, ps) = any_uf();
    let mut rows = [(0u32, 0u32); L];
    let mut displaced = Vec::with_capacity(L);
    let mut i = 0;
    while i < L {
        let child: u32 = kani::any();
        let ts: u32 = kani::any();
        kani::assume(child < (NID as u32) + 2);
        if i > 0 {
            kani::assume(rows[i - 1].1 <= ts);
        }
        rows[i] = (child, ts);
        displaced.push((v(child), v(ts)));
        i += 1;
    }
    let len: usize = kani::any();
    kani::assume(len <= L);
    displaced.truncate(len);
    let t = DisplacedTable {
        uf,
        displaced,
        changed: false,
        lookup_table: HashMap::default(),
        buffered_writes: Arc::new(SegQueue::new()),
    };
    (t, ps, rows, len)
}

fn dense_bounds(s: &Subset) -> Option<(usize, usize)> {
    match s {
        Subset::Dense(r) => Some((r.start.index(), r.end.index())),
        Subset::Sparse(_) => None,
    }
}

#[kani::proof]
#[kani::unwind(6)]
fn c16_disp_timestamp_bounds() {
    let (t, _ps, rows, len) = any_table();
    let val: u32 = kani::any();
    let res = t.timestamp_bounds(v(val));
    // specification by linear scan
    let mut lt = 0usize;
    let mut eq = 0usize;
    let mut i = 0;
    while i < L {
        if i < len {
            if rows[i].1 < val {
                lt += 1;
            }
            if rows[i].1 == val {
                eq += 1;
            }
        }
        i += 1;
    }
    match res {
        Ok((s, e)) => {
            assert!(eq > 0);
            assert!(s.index() == lt && e.index() == lt + eq);
        }
        Err(b) => {
            assert!(eq == 0);
            assert!(b.index() == lt);
        }
    }
    kani::cover!(eq == 2 && lt == 1, "witness: a run of two equal timestamps after a smaller one");
    kani::cover!(eq == 0 && lt == 1 && len == 3, "witness: constant falls strictly between two timestamps");
    std::mem::forget(t);
}

/// Whenever fast_subset returns a range it is exactly the set of rows satisfying the constraint
/// (as judged by the real row-by-row `eval`), and lies inside the table. `None` is always accepted.
fn fast_subset_vs_eval(kind: u8) {
    let (t, _ps, _rows, len) = any_table();
    let val: u32 = kani::any();
    let col = ColumnId::new(2);
    let c = match kind {
        0 => Constraint::EqConst { col, val: v(val) },
        1 => Constraint::LtConst { col, val: v(val) },
        2 => Constraint::LeConst { col, val: v(val) },
        3 => Constraint::GtConst { col, val: v(val) },
        _ => Constraint::GeConst { col, val: v(val) },
    };
    let got = t.fast_subset(&c);
    if let Some(s) = &got {
        let b = dense_bounds(s);
        assert!(b.is_some(), "timestamp fast paths return dense ranges");
        let (lo, hi) = b.unwrap();
        assert!(lo <= hi && hi <= len);
        let mut r = 0;
        while r < L {
            if r < len {
                let inside = lo <= r && r < hi;
                assert!(inside == t.eval(&c, RowId::from_usize(r)));
            }
            r += 1;
        }
    }
    if kind != 0 {
        assert!(got.is_some(), "info-level: today every ordered comparison on the ts column has a fast path");
    }
    kani::cover!(got.is_some() && len == 3, "witness: a range was returned for a full table");
    if let Some(s) = &got {
        let (lo, hi) = dense_bounds(s).unwrap();
        kani::cover!(lo > 0 && hi < len, "info: strict interior range");
        kani::cover!(hi - lo == 1 && len == 3, "info: singleton range");
    }
    std::mem::forget(got);
    std::mem::forget(t);
}

#[kani::proof]
#[kani::unwind(6)]
fn c16_disp_fast_subset_eq() {
    fast_subset_vs_eval(0);
}
#[kani::proof]
#[kani::unwind(6)]
fn c16_disp_fast_subset_lt() {
    fast_subset_vs_eval(1);
}
#[kani::proof]
#[kani::unwind(6)]
fn c16_disp_fast_subset_le() {
    fast_subset_vs_eval(2);
}
#[kani::proof]
#[kani::unwind(6)]
fn c16_disp_fast_subset_gt() {
    fast_subset_vs_eval(3);
}
#[kani::proof]
#[kani::unwind(6)]
fn c16_disp_fast_subset_ge() {
    fast_subset_vs_eval(4);
}

/// Constraints on other columns / Eq{..}: either no fast path, or (col 0, empty hash index) the empty set
/// only if no row has that key -- here lookup_table is empty so `Some(empty)` is only right when len == 0.
#[kani::proof]
#[kani::unwind(6)]
fn c16_disp_fast_subset_other_cols() {
    let (t, _ps, _rows, _len) = any_table();
    let val: u32 = kani::any();
    let col1 = ColumnId::new(1);
    assert!(t.fast_subset(&Constraint::EqConst { col: col1, val: v(val) }).is_none());
    assert!(t.fast_subset(&Constraint::LtConst { col: col1, val: v(val) }).is_none());
    assert!(t.fast_subset(&Constraint::GeConst { col: ColumnId::new(0), val: v(val) }).is_none());
    assert!(t
        .fast_subset(&Constraint::Eq {
            l_col: ColumnId::new(0),
            r_col: col1
        })
        .is_none());
    kani::cover!(true, "witness: end of harness reached");
    std::mem::forget(t);
}

/// expand(r) = [child, canonical(child) *now*, ts]; eval agrees with the constraint's meaning on that row.
#[kani::proof]
#[kani::unwind(6)]
fn c16_disp_expand_eval() {
    let (t, ps, rows, len) = any_table();
    let r: usize = kani::any();
    kani::assume(r < len);
    let e = t.expand(RowId::from_usize(r));
    assert!(e[0] == v(rows[r].0));
    assert!(e[1] == v(root(&ps, rows[r].0)));
    assert!(e[2] == v(rows[r].1));
    let val: u32 = kani::any();
    let col: u32 = kani::any();
    kani::assume(col < 3);
    let cid = ColumnId::new(col);
    let x = e[col as usize];
    assert!(t.eval(&Constraint::EqConst { col: cid, val: v(val) }, RowId::from_usize(r)) == (x == v(val)));
    assert!(t.eval(&Constraint::LtConst { col: cid, val: v(val) }, RowId::from_usize(r)) == (x < v(val)));
    assert!(t.eval(&Constraint::LeConst { col: cid, val: v(val) }, RowId::from_usize(r)) == (x <= v(val)));
    assert!(t.eval(&Constraint::GtConst { col: cid, val: v(val) }, RowId::from_usize(r)) == (x > v(val)));
    assert!(t.eval(&Constraint::GeConst { col: cid, val: v(val) }, RowId::from_usize(r)) == (x >= v(val)));
    let col2: u32 = kani::any();
    kani::assume(col2 < 3);
    assert!(
        t.eval(
            &Constraint::Eq {
                l_col: cid,
                r_col: ColumnId::new(col2)
            },
            RowId::from_usize(r)
        ) == (x == e[col2 as usize])
    );
    // all / len / updates_since / version describe exactly the displaced rows
    assert!(t.len() == len);
    assert!(dense_bounds(&t.all()) == Some((0, len)));
    assert!(t.version().minor.index() == len);
    kani::cover!(rows[r].0 != root(&ps, rows[r].0), "witness: the canonical column differs from the key");
    std::mem::forget(t);
}

/// The canonical column reflects the union-find *now*: get_row_column(k, 1) == find_naive(k), for any key
/// (also one with no displaced row -- it is then its own leader or has been compressed).
#[kani::proof]
#[kani::unwind(6)]
fn c16_disp_get_row_column_canonical() {
    let (t, ps, _rows, _len) = any_table();
    let k: u32 = kani::any();
    kani::assume(k < (NID as u32) + 2);
    let got = t.get_row_column(&[v(k)], ColumnId::new(1));
    assert!(got == Some(v(root(&ps, k))));
    kani::cover!(root(&ps, k) != k, "witness: non-canonical key");
    std::mem::forget(t);
}

/// After `clear()`, lookups answer as on an empty table -- for every key.
/// One concrete displaced row before the clear, so the hashbrown table is concrete and the probe symbolic.
#[kani::proof]
#[kani::unwind(6)]
fn c16_disp_clear_then_lookup() {
    let mut t = DisplacedTable::default();
    // ids 0..=2 exist; 2 was displaced by 1 at ts 7
    let _ = t.insert_impl(&[v(2), v(1), v(7)]);
    assert!(t.len() == 1);
    Table::clear(&mut t);
    assert!(t.len() == 0);
    let k: u32 = kani::any();
    kani::assume(k < 4);
    let fs = t.fast_subset(&Constraint::EqConst {
        col: ColumnId::new(0),
        val: v(k),
    });
    match &fs {
        Some(s) => assert!(s.size() == 0, "no row can match on an empty table"),
        None => {}
    }
    let c = t.get_row_column(&[v(k)], ColumnId::new(2));
    assert!(c.is_none(), "no timestamp for any key after clear");
    let c1 = t.get_row_column(&[v(k)], ColumnId::new(1));
    assert!(c1 == Some(v(k)), "after clear every id is its own leader");
    kani::cover!(k == 2, "witness: probing the key that was displaced before the clear");
    std::mem::forget(fs);
    std::mem::forget(t);
}

// ------------------------------------------------------------------------------------------------
// C01.3 — Canonicalizer::rebuild_buf: the four hand-specialised arms.
//
// One symbolic row of W columns, symbolic forest of NID ids, column list of length K (concrete, distinct
// columns chosen per harness). Exactness: a row is emitted iff some listed column is non-canonical, and
// the emitted row equals the input with exactly the listed columns replaced by their canonical ids.

fn rebuild_buf_case<const W: usize, const K: usize>(cols: [u32; K]) {
    let (uf, ps) = any_uf();
    let table = DisplacedTable {
        uf,
        displaced: Vec::new(),
        changed: false,
        lookup_table: HashMap::default(),
        buffered_writes: Arc::new(SegQueue::new()),
    };
    // two rows: the first is a decoy that must not be touched when start = 1
    let mut cells: Vec<Cell<Value>> = Vec::with_capacity(2 * W);
    let mut row = [0u32; W];
    let mut i = 0;
    while i < W {
        cells.push(Cell::new(v(3)));
        i += 1;
    }
    let mut i = 0;
    while i < W {
        let x: u32 = kani::any();
        kani::assume(x < (NID as u32) + 1);
        row[i] = x;
        cells.push(Cell::new(v(x)));
        i += 1;
    }
    let buf = kani_rowbuf(W, 2, cells);
    let mut out = kani_tagged(W);
    let canon = Canonicalizer {
        cols: cols.iter().map(|c| ColumnId::new(*c)).collect(),
        table: &table,
    };
    let db = crate::Database::default();
    db.with_execution_state(None, |state| {
        canon.rebuild_buf(&buf, RowId::new(1), RowId::new(2), &mut out, state);
    });
    let mut changed = false;
    let mut k = 0;
    while k < K {
        let c = cols[k] as usize;
        if root(&ps, row[c]) != row[c] {
            changed = true;
        }
        k += 1;
    }
    if changed {
        assert!(out.len() == 1, "a row with a non-canonical listed column is emitted exactly once");
        let (id, got) = out.get_row(RowId::new(0));
        assert!(id == RowId::new(1), "tagged with the source row id");
        let mut i = 0;
        while i < W {
            let mut listed = false;
            let mut k = 0;
            while k < K {
                if cols[k] as usize == i {
                    listed = true;
                }
                k += 1;
            }
            let expect = if listed { root(&ps, row[i]) } else { row[i] };
            assert!(got[i] == v(expect));
            i += 1;
        }
    } else {
        assert!(out.len() == 0, "a fully canonical row is not emitted");
    }
    // rebuild_val is find_naive
    let x: u32 = kani::any();
    kani::assume(x < (NID as u32) + 1);
    assert!(canon.rebuild_val(v(x)) == v(root(&ps, x)));
    kani::cover!(changed, "witness: a row is rewritten");
    kani::cover!(!changed, "witness: a canonical row is skipped");
    std::mem::forget(canon);
    kani_forget_rowbuf(buf);
    kani_forget_tagged(out);
    std::mem::forget(table);
    std::mem::forget(db);
}

#[kani::proof]
#[kani::unwind(7)]
fn c01_canon_rebuild_buf_1col() {
    rebuild_buf_case::<3, 1>([1]);
}
#[kani::proof]
#[kani::unwind(7)]
fn c01_canon_rebuild_buf_2col() {
    rebuild_buf_case::<3, 2>([0, 2]);
}
#[kani::proof]
#[kani::unwind(7)]
fn c01_canon_rebuild_buf_3col() {
    rebuild_buf_case::<4, 3>([0, 1, 3]);
}
#[kani::proof]
#[kani::unwind(7)]
fn c01_canon_rebuild_buf_4col() {
    rebuild_buf_case::<5, 4>([0, 2, 3, 4]);
}
