// Included at the end of src/scheduler.rs under cfg(kani).
// C18 (kernel level): the scheduler's side vector of matches -- choose / choose_all / instantiate and the
// swap-remove that computes the residual (delayed) matches.  Variable-free tuple layout (tuple width 1):
// a `Vec<ResolvedVar>` holding a real sort drags every sort's vtable (and the whole EGraph) into reach,
// which crashes the Kani compiler.
use super::*;
use numeric_id::NumericId;

const K: usize = 4;

static mut N_INSERT: u32 = 0;
static mut INSERT_LEN_OK: bool = true;

fn rec_insert<I: Iterator<Item = Value>>(_t: &TableAction, _s: &mut ExecutionState, row: I) {
    let mut n = 0usize;
    for _x in row {
        n += 1;
    }
    unsafe {
        N_INSERT += 1;
        // variable-free layout: only the trailing unit is written
        if n != 1 {
            INSERT_LEN_OK = false;
        }
    }
}

fn unit_value<P: core_relations::BaseValue>(_b: &core_relations::BaseValues, _p: P) -> Value {
    Value::new(0)
}

fn any_matches() -> (Matches, [u32; K]) {
    let mut vals = [0u32; K];
    let mut v: Vec<Value> = Vec::with_capacity(K);
    let mut i = 0;
    while i < K {
        let x: u32 = kani::any();
        // pairwise distinct, so that each match can be tracked through the swap-remove
        let mut j = 0;
        while j < i {
            kani::assume(vals[j] != x);
            j += 1;
        }
        vals[i] = x;
        v.push(Value::new(x));
        i += 1;
    }
    (Matches::new(v, vec![]), vals)
}

fn count(res: &[Value], x: u32) -> usize {
    let mut n = 0;
    let mut i = 0;
    while i < res.len() {
        if res[i] == Value::new(x) {
            n += 1;
        }
        i += 1;
    }
    n
}

fn choose_case(calls: usize) {
    let (mut m, vals) = any_matches();
    assert!(m.match_size() == K);
    assert!(m.tuple_len() == 0);
    let mut chosen = [false; K];
    let mut c = 0;
    while c < calls {
        let idx: usize = kani::any();
        kani::assume(idx < K);
        m.choose(idx);
        chosen[idx] = true;
        c += 1;
    }
    let db = core_relations::Database::default();
    let ta = TableAction::kani_dummy();
    let res = db.with_execution_state(None, |st| m.instantiate(st, &ta));
    let mut n_chosen = 0;
    let mut i = 0;
    while i < K {
        if chosen[i] {
            n_chosen += 1;
            assert!(count(&res, vals[i]) == 0, "a chosen match is not offered again");
        } else {
            assert!(count(&res, vals[i]) == 1, "an unchosen match stays available, exactly once");
        }
        i += 1;
    }
    assert!(res.len() == K - n_chosen, "the residual holds nothing else");
    unsafe {
        assert!(N_INSERT as usize == calls, "one action row per choose call");
        assert!(INSERT_LEN_OK);
    }
    kani::cover!(n_chosen == calls, "witness: all chosen indices distinct");
    if calls >= 2 {
        kani::cover!(n_chosen < calls, "info: the same match chosen twice");
        kani::cover!(chosen[K - 1] && !chosen[0], "info: the last match is chosen, the first is not");
    }
    std::mem::forget(res);
    std::mem::forget(ta);
    std::mem::forget(db);
}

macro_rules! choose_harness {
    ($name:ident, $calls:expr) => {
        #[kani::proof]
        #[kani::unwind(7)]
        #[kani::stub(egglog_bridge::TableAction::insert, rec_insert)]
        #[kani::stub(core_relations::BaseValues::get, unit_value)]
        fn $name() {
            choose_case($calls);
        }
    };
}
choose_harness!(c18_sched_choose_0, 0);
choose_harness!(c18_sched_choose_1, 1);
choose_harness!(c18_sched_choose_2, 2);
choose_harness!(c18_sched_choose_3, 3);
choose_harness!(c18t_sched_choose_4, 4);

#[kani::proof]
#[kani::unwind(7)]
#[kani::stub(egglog_bridge::TableAction::insert, rec_insert)]
#[kani::stub(core_relations::BaseValues::get, unit_value)]
fn c18_sched_choose_all() {
    let (mut m, _vals) = any_matches();
    // choose() calls before choose_all() do not matter
    if kani::any() {
        m.choose(1);
    }
    m.choose_all();
    let db = core_relations::Database::default();
    let ta = TableAction::kani_dummy();
    let res = db.with_execution_state(None, |st| m.instantiate(st, &ta));
    assert!(res.is_empty(), "nothing is delayed when everything is chosen");
    unsafe {
        assert!(N_INSERT as usize == K, "every match is applied");
        assert!(INSERT_LEN_OK);
    }
    kani::cover!(true, "witness: end of harness reached");
    std::mem::forget(res);
    std::mem::forget(ta);
    std::mem::forget(db);
}
