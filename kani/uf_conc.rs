// C17 (concurrent) — included at the end of union-find/src/concurrent/uf.rs under cfg(kani).
//
// Kani has no threads; interleavings become data.  The real algorithm is generic in the atomic cell
// (`T: AtomicInt`).  We instantiate it at `SymAtomic`, whose load / cas / store act on a global parent
// array MEM and, BEFORE every access, call env_step(): while a budget lasts, and guarded by a
// solver-chosen boolean, the environment performs one write that another thread running this same code
// could perform (a *link* of a root under a smaller id of another class, or a *compress* of a non-root
// to a smaller id of its own class).  A ghost array CLS carries the true partition.
//
// Rely/guarantee:
//   guarantee — every write the real code performs (seen in SymAtomic::cas/store) is itself a link or a
//               compress (asserted at the write) and keeps Inv /\ ghost consistency;
//   rely      — under <= B environment writes at solver-chosen points, merge / find / same_set meet
//               their linearizable specifications (asserted at return).
//
// The environment is deliberately a little MORE liberal than real threads (compress may go to any
// smaller id of the same class, not only to an ancestor); the guarantee shows the code's writes are
// inside it.  SC atomics; the resize protocol of `Buffer` is not modelled (cfg(kani) stand-in).
use super::*;

const N: usize = 4;

/// Harness-side loops over the N = 4 ids are written out, so that the global unwind bound only has to
/// cover the loops of the code under test (find_impl <= 2 iterations for N = 4; retry loops <= B + 1).
macro_rules! each4 {
    ($i:ident, $body:block) => {{
        { let $i: usize = 0; $body }
        { let $i: usize = 1; $body }
        { let $i: usize = 2; $body }
        { let $i: usize = 3; $body }
    }};
}

static mut MEM: [u32; N] = [0; N];
static mut CLS: [u32; N] = [0; N];
static mut BUDGET: u32 = 0;
static mut ENV_WRITES: u32 = 0;
static mut CODE_LINKS: u32 = 0;
static mut CODE_COMPRESS: u32 = 0;
static mut ROOT_SEEN: [bool; N] = [false; N];
static mut LAST_LINK: (u32, u32) = (0, 0); // (child, parent) of the code's last link

#[derive(Default)]
pub(crate) struct SymAtomic {
    idx: u32,
}

fn relabel(from: u32, to: u32) {
    unsafe {
        each4!(k, {
            if CLS[k] == from {
                CLS[k] = to;
            }
        });
    }
}

/// One optional write by "another thread".
fn env_step() {
    unsafe {
        if BUDGET == 0 {
            return;
        }
        let go: bool = kani::any();
        if !go {
            return;
        }
        BUDGET -= 1;
        let i: usize = kani::any();
        let j: usize = kani::any();
        kani::assume(i < N && j < i);
        if MEM[i] == i as u32 {
            // link: i is a root; j < i lies in another class (automatic: i is its class minimum)
            MEM[i] = j as u32;
            let to = CLS[j];
            relabel(i as u32, to);
        } else {
            // compress: i is not a root; j < i, same class
            kani::assume(CLS[j] == CLS[i]);
            MEM[i] = j as u32;
        }
        ENV_WRITES += 1;
    }
}

/// The code wrote `new` over `old` at cell `i`: it must be a link or a compress step.
fn code_write(i: usize, old: u32, new: u32) {
    unsafe {
        if new == old {
            return;
        }
        if old == i as u32 {
            // was a root: link under a strictly smaller id (hence of another class)
            assert!(new < i as u32, "guarantee: link goes to a smaller id");
            assert!(CLS[new as usize] != CLS[i], "guarantee: link joins two different classes");
            let to = CLS[new as usize];
            relabel(i as u32, to);
            CODE_LINKS += 1;
            LAST_LINK = (i as u32, new);
        } else {
            // was not a root: compress, to an id of the same class that is no larger than the old parent
            assert!(new <= old, "guarantee: compression only moves towards the root");
            assert!(CLS[new as usize] == CLS[i], "guarantee: compression stays inside the class");
            CODE_COMPRESS += 1;
        }
    }
}

impl AtomicInt for SymAtomic {
    type Underlying = u32;
    fn from_usize(value: usize) -> Self {
        SymAtomic { idx: value as u32 }
    }
    fn as_usize(value: u32) -> usize {
        value as usize
    }
    fn load(&self) -> u32 {
        env_step();
        unsafe {
            let i = self.idx as usize;
            let v = MEM[i];
            if v == i as u32 {
                ROOT_SEEN[i] = true;
            }
            v
        }
    }
    fn store(&self, value: u32) {
        env_step();
        unsafe {
            let i = self.idx as usize;
            let old = MEM[i];
            code_write(i, old, value);
            MEM[i] = value;
        }
    }
    fn cas(&self, current: u32, new: u32) -> Result<u32, u32> {
        env_step();
        unsafe {
            let i = self.idx as usize;
            let old = MEM[i];
            if old == current {
                code_write(i, old, new);
                MEM[i] = new;
                Ok(old)
            } else {
                Err(old)
            }
        }
    }
}

fn root0(p: &[u32; N], i: usize) -> u32 {
    // three parent steps reach the root of any forest of 4 ids under Inv
    let a = p[i] as usize;
    let b = p[a] as usize;
    p[b]
}

/// Arbitrary forest under Inv; ghost partition computed from it; returns the entry snapshot of CLS.
fn setup(budget: u32) -> (ConcurrentUnionFind<SymAtomic>, [u32; N]) {
    let cells = vec![
        SymAtomic { idx: 0 },
        SymAtomic { idx: 1 },
        SymAtomic { idx: 2 },
        SymAtomic { idx: 3 },
    ];
    let uf = ConcurrentUnionFind::<SymAtomic> {
        data: Arc::new(Buffer::from_vec(cells)),
    };
    let mut m = [0u32; N];
    each4!(i, {
        let p: u32 = kani::any();
        kani::assume(p as usize <= i);
        m[i] = p;
    });
    let mut c = [0u32; N];
    each4!(i, {
        c[i] = root0(&m, i);
    });
    unsafe {
        MEM = m;
        CLS = c;
        BUDGET = budget;
        ENV_WRITES = 0;
        CODE_LINKS = 0;
        CODE_COMPRESS = 0;
        ROOT_SEEN = [false; N];
    }
    (uf, c)
}

fn inv_now() -> bool {
    unsafe {
        let mut ok = true;
        each4!(i, {
            let p = MEM[i] as usize;
            if p > i {
                ok = false;
            } else {
                if CLS[i] as usize > i {
                    ok = false;
                }
                if CLS[p] != CLS[i] {
                    ok = false;
                }
                if (p == i) != (CLS[i] as usize == i) {
                    ok = false;
                }
            }
        });
        ok
    }
}

/// classes only ever merge: ids that shared a class at entry still do
fn coarsens(c0: &[u32; N]) -> bool {
    unsafe {
        let mut ok = true;
        each4!(i, {
            each4!(j, {
                if c0[i] == c0[j] && CLS[i] != CLS[j] {
                    ok = false;
                }
            });
        });
        ok
    }
}

fn merge_step(l: u32, r: u32, budget: u32) {
    let (uf, c0) = setup(budget);
    let (parent, child) = uf.merge(l, r);
    unsafe {
        assert!(inv_now(), "Inv and ghost consistency after merge");
        assert!(coarsens(&c0), "no class was split");
        assert!(CLS[l as usize] == CLS[r as usize], "l and r share a class on return");
        assert!(parent <= child);
        assert!(CODE_LINKS <= 1, "merge links at most once");
        if parent != child {
            let ll = LAST_LINK;
            assert!(CODE_LINKS == 1 && ll.0 == child && ll.1 == parent, "the returned pair is the link performed");
            // the link joined l's class with r's class
            assert!(CLS[child as usize] == CLS[l as usize] && CLS[parent as usize] == CLS[l as usize]);
        } else {
            assert!(CODE_LINKS == 0, "no link when the classes were already equal");
            assert!(CLS[parent as usize] == CLS[l as usize]);
            assert!(ROOT_SEEN[parent as usize], "returned representative was a root at some instant of the call");
        }
        if ENV_WRITES == 0 {
            // no interference actually happened: sequential specification
            let (ra, rb) = (c0[l as usize], c0[r as usize]);
            if ra == rb {
                assert!(parent == ra && child == ra);
            } else {
                assert!(parent == cmp::min(ra, rb) && child == cmp::max(ra, rb));
            }
            let m = cmp::min(ra, rb);
            each4!(i, {
                let e = if c0[i] == ra || c0[i] == rb { m } else { c0[i] };
                assert!(CLS[i] == e);
            });
        }
        kani::cover!(true, "witness: end of harness reached");
        kani::cover!(ENV_WRITES == budget, "witness: the whole interference budget was used");
    }
    std::mem::forget(uf);
}

fn find_step(x: u32, budget: u32) {
    let (uf, c0) = setup(budget);
    let r = uf.find(x);
    unsafe {
        assert!(inv_now());
        assert!(coarsens(&c0));
        assert!(r <= x);
        assert!(CLS[r as usize] == CLS[x as usize], "find returns a member of x's class");
        assert!(ROOT_SEEN[r as usize], "find returns an id that was a root at some instant of the call");
        assert!(CODE_LINKS == 0, "find never links");
        if ENV_WRITES == 0 {
            assert!(r == c0[x as usize]);
            each4!(i, {
                assert!(CLS[i] == c0[i]);
            });
        }
        kani::cover!(true, "witness: end of harness reached");
        kani::cover!(ENV_WRITES == budget, "witness: the whole interference budget was used");
    }
    std::mem::forget(uf);
}

fn same_set_step(l: u32, r: u32, budget: u32) {
    let (uf, c0) = setup(budget);
    let ans = uf.same_set(l, r);
    unsafe {
        assert!(inv_now());
        assert!(coarsens(&c0));
        assert!(CODE_LINKS == 0, "same_set never links");
        if ans {
            assert!(CLS[l as usize] == CLS[r as usize], "true => same class on return");
        } else {
            assert!(c0[l as usize] != c0[r as usize], "false => different classes on entry");
        }
        if ENV_WRITES == 0 {
            assert!(ans == (c0[l as usize] == c0[r as usize]));
        }
        kani::cover!(true, "witness: end of harness reached");
        kani::cover!(ENV_WRITES == budget, "witness: the whole interference budget was used");
    }
    std::mem::forget(uf);
}

macro_rules! merge_harness {
    ($name:ident, $l:expr, $r:expr, $b:expr, $u:expr) => {
        #[kani::proof]
        #[kani::unwind($u)]
        fn $name() {
            merge_step($l, $r, $b);
        }
    };
}
macro_rules! find_harness {
    ($name:ident, $x:expr, $b:expr, $u:expr) => {
        #[kani::proof]
        #[kani::unwind($u)]
        fn $name() {
            find_step($x, $b);
        }
    };
}
macro_rules! sameset_harness {
    ($name:ident, $l:expr, $r:expr, $b:expr, $u:expr) => {
        #[kani::proof]
        #[kani::unwind($u)]
        fn $name() {
            same_set_step($l, $r, $b);
        }
    };
}

// ---- base case: the real constructor yields the identity forest (cells know their index) ----
#[kani::proof]
#[kani::unwind(6)]
fn c17_conc_base_with_capacity() {
    let uf = ConcurrentUnionFind::<SymAtomic>::with_capacity(N);
    uf.data.with_access(
        N,
        |buf| {
            let mut i = 0;
            while i < N {
                assert!(buf[i].idx as usize == i);
                i += 1;
            }
        },
        SymAtomic::from_usize,
    );
    kani::cover!(true, "witness: end of harness reached");
    std::mem::forget(uf);
}

// ---- B = 0 (quick): every ordered pair for merge, every id for find, every pair for same_set ----
merge_harness!(c17_conc_merge_b0_0_0, 0, 0, 0, 4);
merge_harness!(c17_conc_merge_b0_0_1, 0, 1, 0, 4);
merge_harness!(c17_conc_merge_b0_0_2, 0, 2, 0, 4);
merge_harness!(c17_conc_merge_b0_0_3, 0, 3, 0, 4);
merge_harness!(c17_conc_merge_b0_1_0, 1, 0, 0, 4);
merge_harness!(c17_conc_merge_b0_1_1, 1, 1, 0, 4);
merge_harness!(c17_conc_merge_b0_1_2, 1, 2, 0, 4);
merge_harness!(c17_conc_merge_b0_1_3, 1, 3, 0, 4);
merge_harness!(c17_conc_merge_b0_2_0, 2, 0, 0, 4);
merge_harness!(c17_conc_merge_b0_2_1, 2, 1, 0, 4);
merge_harness!(c17_conc_merge_b0_2_2, 2, 2, 0, 4);
merge_harness!(c17_conc_merge_b0_2_3, 2, 3, 0, 4);
merge_harness!(c17_conc_merge_b0_3_0, 3, 0, 0, 4);
merge_harness!(c17_conc_merge_b0_3_1, 3, 1, 0, 4);
merge_harness!(c17_conc_merge_b0_3_2, 3, 2, 0, 4);
merge_harness!(c17_conc_merge_b0_3_3, 3, 3, 0, 4);
find_harness!(c17_conc_find_b0_0, 0, 0, 4);
find_harness!(c17_conc_find_b0_1, 1, 0, 4);
find_harness!(c17_conc_find_b0_2, 2, 0, 4);
find_harness!(c17_conc_find_b0_3, 3, 0, 4);
sameset_harness!(c17_conc_sameset_b0_0_3, 0, 3, 0, 4);
sameset_harness!(c17_conc_sameset_b0_1_2, 1, 2, 0, 4);
sameset_harness!(c17_conc_sameset_b0_2_3, 2, 3, 0, 4);
sameset_harness!(c17_conc_sameset_b0_3_1, 3, 1, 0, 4);
sameset_harness!(c17_conc_sameset_b0_2_2, 2, 2, 0, 4);

// ---- B = 1 (quick: representative pairs; thorough: all) ----
merge_harness!(c17_conc_merge_b1_2_3, 2, 3, 1, 4);
merge_harness!(c17t_conc_merge_b1_3_1, 3, 1, 1, 4);
merge_harness!(c17t_conc_merge_b1_1_2, 1, 2, 1, 4);
find_harness!(c17_conc_find_b1_3, 3, 1, 4);
find_harness!(c17_conc_find_b1_2, 2, 1, 4);
merge_harness!(c17t_conc_merge_b1_0_0, 0, 0, 1, 4);
merge_harness!(c17t_conc_merge_b1_0_1, 0, 1, 1, 4);
merge_harness!(c17t_conc_merge_b1_0_2, 0, 2, 1, 4);
merge_harness!(c17t_conc_merge_b1_0_3, 0, 3, 1, 4);
merge_harness!(c17t_conc_merge_b1_1_0, 1, 0, 1, 4);
merge_harness!(c17t_conc_merge_b1_1_1, 1, 1, 1, 4);
merge_harness!(c17t_conc_merge_b1_1_3, 1, 3, 1, 4);
merge_harness!(c17t_conc_merge_b1_2_0, 2, 0, 1, 4);
merge_harness!(c17t_conc_merge_b1_2_1, 2, 1, 1, 4);
merge_harness!(c17t_conc_merge_b1_2_2, 2, 2, 1, 4);
merge_harness!(c17t_conc_merge_b1_3_0, 3, 0, 1, 4);
merge_harness!(c17t_conc_merge_b1_3_2, 3, 2, 1, 4);
merge_harness!(c17t_conc_merge_b1_3_3, 3, 3, 1, 4);
find_harness!(c17t_conc_find_b1_0, 0, 1, 4);
find_harness!(c17t_conc_find_b1_1, 1, 1, 4);
sameset_harness!(c17_conc_sameset_b1_2_3, 2, 3, 1, 4);
sameset_harness!(c17t_conc_sameset_b1_1_3, 1, 3, 1, 4);

// ---- B = 2 (thorough) ----
merge_harness!(c17t_conc_merge_b2_2_3, 2, 3, 2, 5);
merge_harness!(c17t_conc_merge_b2_3_1, 3, 1, 2, 5);
merge_harness!(c17t_conc_merge_b2_1_2, 1, 2, 2, 5);
merge_harness!(c17t_conc_merge_b2_3_0, 3, 0, 2, 5);
merge_harness!(c17t_conc_merge_b2_3_2, 3, 2, 2, 5);
merge_harness!(c17t_conc_merge_b2_1_3, 1, 3, 2, 5);
find_harness!(c17t_conc_find_b2_3, 3, 2, 5);
find_harness!(c17t_conc_find_b2_2, 2, 2, 5);
