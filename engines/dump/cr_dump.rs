// Included at the end of core-relations/src/query.rs under cfg(egglog_verif).
// E2 — dump, as JSON, exactly what the real planner produced: every plan of a RuleSet (atoms, headers,
// stage programs, materialisation specs, action program) and every request made to
// `add_rule_from_cached_plan` (extra constraints, kept or dropped as provably empty).
// Nothing here influences planning or execution; it only renders existing values.
use super::*;
use crate::free_join::plan::{JoinStage, MatScanMode, ScanSpec};
use std::fmt::Write;

#[derive(Clone, Debug, Default)]
pub struct VariantRec {
    pub desc: String,
    pub extra: String,
    pub kept: Option<usize>,
}

fn jstr(s: &str) -> String {
    let mut o = String::with_capacity(s.len() + 2);
    o.push('"');
    for ch in s.chars() {
        match ch {
            '"' => o.push_str("\\\""),
            '\\' => o.push_str("\\\\"),
            '\n' => o.push_str("\\n"),
            c if (c as u32) < 0x20 => {
                let _ = write!(o, "\\u{:04x}", c as u32);
            }
            c => o.push(c),
        }
    }
    o.push('"');
    o
}

fn jlist<T>(xs: impl IntoIterator<Item = T>, f: impl Fn(T) -> String) -> String {
    let v: Vec<String> = xs.into_iter().map(f).collect();
    format!("[{}]", v.join(","))
}

pub(crate) fn constraint_json(c: &Constraint) -> String {
    match c {
        Constraint::Eq { l_col, r_col } => {
            format!("{{\"k\":\"Eq\",\"l\":{},\"r\":{}}}", l_col.index(), r_col.index())
        }
        Constraint::EqConst { col, val } => format!("{{\"k\":\"EqConst\",\"col\":{},\"val\":{}}}", col.index(), val.rep()),
        Constraint::LtConst { col, val } => format!("{{\"k\":\"LtConst\",\"col\":{},\"val\":{}}}", col.index(), val.rep()),
        Constraint::GtConst { col, val } => format!("{{\"k\":\"GtConst\",\"col\":{},\"val\":{}}}", col.index(), val.rep()),
        Constraint::LeConst { col, val } => format!("{{\"k\":\"LeConst\",\"col\":{},\"val\":{}}}", col.index(), val.rep()),
        Constraint::GeConst { col, val } => format!("{{\"k\":\"GeConst\",\"col\":{},\"val\":{}}}", col.index(), val.rep()),
    }
}

pub(crate) fn extra_json(extra: &[(AtomId, Constraint)]) -> String {
    jlist(extra.iter(), |(a, c)| format!("{{\"atom\":{},\"c\":{}}}", a.index(), constraint_json(c)))
}

fn entry_json(e: &QueryEntry) -> String {
    match e {
        QueryEntry::Var(v) => format!("{{\"var\":{}}}", v.index()),
        QueryEntry::Const(c) => format!("{{\"const\":{}}}", c.rep()),
    }
}

fn writeval_json(w: &WriteVal) -> String {
    match w {
        WriteVal::QueryEntry(e) => entry_json(e),
        WriteVal::IncCounter(c) => format!("{{\"inc_counter\":{}}}", c.index()),
        WriteVal::CurrentVal(i) => format!("{{\"current_val\":{}}}", i),
    }
}

fn scanspec_json(s: &ScanSpec) -> String {
    format!(
        "{{\"atom\":{},\"cols\":{},\"constraints\":{}}}",
        s.to_index.atom.index(),
        jlist(s.to_index.vars.iter(), |c| c.index().to_string()),
        jlist(s.constraints.iter(), constraint_json)
    )
}

fn bind_json(bind: &[(ColumnId, Variable)]) -> String {
    jlist(bind.iter(), |(c, v)| format!("[{},{}]", c.index(), v.index()))
}

fn to_intersect_json(ti: &[(ScanSpec, SmallVec<[ColumnId; 2]>)]) -> String {
    jlist(ti.iter(), |(s, cols)| {
        format!("{{\"scan\":{},\"cover_cols\":{}}}", scanspec_json(s), jlist(cols.iter(), |c| c.index().to_string()))
    })
}

fn stage_json(s: &JoinStage) -> String {
    match s {
        JoinStage::Intersect { var, scans } => format!(
            "{{\"op\":\"Intersect\",\"var\":{},\"scans\":{}}}",
            var.index(),
            jlist(scans.iter(), |sc| format!(
                "{{\"atom\":{},\"col\":{},\"cs\":{}}}",
                sc.atom.index(),
                sc.column.index(),
                jlist(sc.cs.iter(), constraint_json)
            ))
        ),
        JoinStage::FusedIntersect { cover, bind, to_intersect } => format!(
            "{{\"op\":\"FusedIntersect\",\"cover\":{},\"bind\":{},\"to_intersect\":{}}}",
            scanspec_json(cover),
            bind_json(bind),
            to_intersect_json(to_intersect)
        ),
        JoinStage::FusedIntersectMat { cover, mode, bind, to_intersect } => {
            let m = match mode {
                MatScanMode::Full => "{\"m\":\"Full\"}".to_string(),
                MatScanMode::KeyOnly => "{\"m\":\"KeyOnly\"}".to_string(),
                MatScanMode::Value(vs) => format!("{{\"m\":\"Value\",\"vars\":{}}}", jlist(vs.iter(), |v| v.index().to_string())),
                MatScanMode::Lookup(vs) => format!("{{\"m\":\"Lookup\",\"vars\":{}}}", jlist(vs.iter(), |v| v.index().to_string())),
            };
            format!(
                "{{\"op\":\"FusedIntersectMat\",\"mat\":{},\"mode\":{},\"bind\":{},\"to_intersect\":{}}}",
                cover.index(),
                m,
                bind_json(bind),
                to_intersect_json(to_intersect)
            )
        }
    }
}

fn stages_json(s: &JoinStages) -> String {
    jlist(s.instrs.iter(), stage_json)
}

fn header_json(h: &[JoinHeader]) -> String {
    jlist(h.iter(), |h| {
        format!(
            "{{\"atom\":{},\"constraints\":{},\"subset_size\":{}}}",
            h.atom.index(),
            jlist(h.constraints.iter(), constraint_json),
            h.subset.size()
        )
    })
}

fn atoms_json(atoms: &DenseIdMap<AtomId, Atom>) -> String {
    jlist(atoms.iter(), |(id, a)| {
        format!(
            "{{\"id\":{},\"table\":{},\"cols\":{},\"fast\":{},\"slow\":{},\"subset_size\":{}}}",
            id.index(),
            a.table.index(),
            jlist(a.var_columns.iter(), |(c, v)| format!("[{},{}]", c.index(), v.index())),
            jlist(a.constraints.fast.iter(), constraint_json),
            jlist(a.constraints.slow.iter(), constraint_json),
            a.constraints.subset.size()
        )
    })
}

fn instr_json(i: &Instr) -> String {
    let es = |v: &Vec<QueryEntry>| jlist(v.iter(), entry_json);
    match i {
        Instr::LookupOrInsertDefault { table, args, default, dst_col, dst_var } => format!(
            "{{\"op\":\"LookupOrInsertDefault\",\"table\":{},\"args\":{},\"default\":{},\"dst_col\":{},\"dst\":{}}}",
            table.index(), es(args), jlist(default.iter(), writeval_json), dst_col.index(), dst_var.index()),
        Instr::LookupWithDefault { table, args, dst_col, dst_var, default } => format!(
            "{{\"op\":\"LookupWithDefault\",\"table\":{},\"args\":{},\"default\":{},\"dst_col\":{},\"dst\":{}}}",
            table.index(), es(args), entry_json(default), dst_col.index(), dst_var.index()),
        Instr::Lookup { table, args, dst_col, dst_var } => format!(
            "{{\"op\":\"Lookup\",\"table\":{},\"args\":{},\"dst_col\":{},\"dst\":{}}}",
            table.index(), es(args), dst_col.index(), dst_var.index()),
        Instr::LookupWithFallback { table, table_key, func, func_args, dst_col, dst_var } => format!(
            "{{\"op\":\"LookupWithFallback\",\"table\":{},\"args\":{},\"func\":{},\"func_args\":{},\"dst_col\":{},\"dst\":{}}}",
            table.index(), es(table_key), func.index(), es(func_args), dst_col.index(), dst_var.index()),
        Instr::Insert { table, vals } => format!("{{\"op\":\"Insert\",\"table\":{},\"vals\":{}}}", table.index(), es(vals)),
        Instr::InsertIfEq { table, l, r, vals } => format!(
            "{{\"op\":\"InsertIfEq\",\"table\":{},\"l\":{},\"r\":{},\"vals\":{}}}",
            table.index(), entry_json(l), entry_json(r), es(vals)),
        Instr::Remove { table, args } => format!("{{\"op\":\"Remove\",\"table\":{},\"args\":{}}}", table.index(), es(args)),
        Instr::External { func, args, dst } => format!(
            "{{\"op\":\"External\",\"func\":{},\"args\":{},\"dst\":{}}}", func.index(), es(args), dst.index()),
        Instr::ExternalWithFallback { f1, args1, f2, args2, dst } => format!(
            "{{\"op\":\"ExternalWithFallback\",\"f1\":{},\"args1\":{},\"f2\":{},\"args2\":{},\"dst\":{}}}",
            f1.index(), es(args1), f2.index(), es(args2), dst.index()),
        Instr::AssertEq(a, b) => format!("{{\"op\":\"AssertEq\",\"l\":{},\"r\":{}}}", entry_json(a), entry_json(b)),
        Instr::AssertNe(a, b) => format!("{{\"op\":\"AssertNe\",\"l\":{},\"r\":{}}}", entry_json(a), entry_json(b)),
        Instr::AssertAnyNe { ops, divider } => format!("{{\"op\":\"AssertAnyNe\",\"ops\":{},\"divider\":{}}}", es(ops), divider),
        Instr::ReadCounter { counter, dst } => format!("{{\"op\":\"ReadCounter\",\"counter\":{},\"dst\":{}}}", counter.index(), dst.index()),
    }
}

fn plan_json(p: &Plan) -> String {
    match p {
        Plan::SinglePlan(p) => format!(
            "{{\"kind\":\"Single\",\"atoms\":{},\"header\":{},\"stages\":{},\"action\":{}}}",
            atoms_json(&p.atoms),
            header_json(&p.header),
            stages_json(&p.stages),
            p.actions.index()
        ),
        Plan::DecomposedPlan(p) => format!(
            "{{\"kind\":\"Decomposed\",\"atoms\":{},\"header\":{},\"blocks\":{},\"result_block\":{},\"action\":{}}}",
            atoms_json(&p.atoms),
            header_json(&p.header),
            jlist(p.stages.blocks.iter(), |(st, ms)| format!(
                "{{\"stages\":{},\"msg_vars\":{},\"val_vars\":{}}}",
                stages_json(st),
                jlist(ms.msg_vars.iter(), |v| v.index().to_string()),
                jlist(ms.val_vars.iter(), |v| v.index().to_string())
            )),
            stages_json(&p.result_block),
            p.actions.index()
        ),
    }
}

impl RuleSet {
    /// JSON rendering of every plan in this rule set together with its action program.
    pub fn verif_dump_json(&self) -> String {
        let plans = jlist(self.plans.iter(), |(rid, (plan, desc, _sm))| {
            let act = self.actions.get(plan.actions());
            let (used, instrs) = match act {
                Some(a) => (
                    jlist(a.used_vars.iter(), |v| v.index().to_string()),
                    jlist(a.instrs.iter(), instr_json),
                ),
                None => ("null".to_string(), "null".to_string()),
            };
            format!(
                "{{\"rule\":{},\"desc\":{},\"plan\":{},\"used_vars\":{},\"instrs\":{}}}",
                rid.index(),
                jstr(desc),
                plan_json(plan),
                used,
                instrs
            )
        });
        let variants = jlist(self.verif_variants.iter(), |v| {
            format!(
                "{{\"desc\":{},\"extra\":{},\"kept\":{}}}",
                jstr(&v.desc),
                v.extra,
                match v.kept {
                    Some(k) => k.to_string(),
                    None => "null".to_string(),
                }
            )
        });
        format!("{{\"plans\":{},\"variants\":{}}}", plans, variants)
    }

    /// Number of `add_rule_from_cached_plan` requests recorded so far.
    pub fn verif_n_variants(&self) -> usize {
        self.verif_variants.len()
    }
}

impl RuleSetBuilder<'_> {
    pub fn verif_n_variants(&self) -> usize {
        self.rule_set.verif_variants.len()
    }
}

impl CachedPlan {
    /// JSON rendering of the cached (un-constrained) plan of a rule.
    pub fn verif_dump_json(&self) -> String {
        format!(
            "{{\"desc\":{},\"plan\":{},\"used_vars\":{},\"instrs\":{}}}",
            jstr(&self.desc),
            plan_json(&self.plan),
            jlist(self.actions.used_vars.iter(), |v| v.index().to_string()),
            jlist(self.actions.instrs.iter(), instr_json)
        )
    }
}
