// Included at the end of egglog-bridge/src/rule.rs under cfg(egglog_verif).
// E2 — record, per call of run_rules_impl, what the bridge asked of the planner: for each rule its
// source-level atom list, seminaive mode, focus atom, last_run_at (mid), next_ts, the cached plan and the
// index range of the variant requests it made; plus the finished RuleSet. Appended as JSON lines to the
// file named by $EGGLOG_VERIF_DUMP. Nothing here influences planning or execution.
use super::*;
use std::io::Write as _;

fn jstr(s: &str) -> String {
    let mut o = String::from("\"");
    for ch in s.chars() {
        match ch {
            '"' => o.push_str("\\\""),
            '\\' => o.push_str("\\\\"),
            '\n' => o.push_str("\\n"),
            c if (c as u32) < 0x20 => o.push_str(&format!("\\u{:04x}", c as u32)),
            c => o.push(c),
        }
    }
    o.push('"');
    o
}

fn entry_json(e: &QueryEntry) -> String {
    match e {
        QueryEntry::Var(v) => format!("{{\"var\":{}}}", v.id.index()),
        QueryEntry::Const { val, .. } => format!("{{\"const\":{}}}", val.rep()),
    }
}

fn emit(line: String) {
    if let Ok(path) = std::env::var("EGGLOG_VERIF_DUMP") {
        if let Ok(mut f) = std::fs::OpenOptions::new().create(true).append(true).open(path) {
            let _ = writeln!(f, "{line}");
        }
    }
}

impl Query {
    pub(crate) fn verif_rule_json(
        &self,
        rule: RuleId,
        desc: &str,
        mid_ts: Timestamp,
        next_ts: Timestamp,
        cached: &CachedPlanInfo,
        variants: (usize, usize),
    ) -> String {
        let atoms: Vec<String> = self
            .atoms
            .iter()
            .map(|(table, entries, sm)| {
                let es: Vec<String> = entries.iter().map(entry_json).collect();
                format!(
                    "{{\"table\":{},\"entries\":[{}],\"func_cols\":{},\"subsume\":{}}}",
                    table.index(),
                    es.join(","),
                    sm.func_cols,
                    sm.subsume
                )
            })
            .collect();
        let mapping: Vec<String> = cached.atom_mapping.iter().map(|a| a.index().to_string()).collect();
        format!(
            "{{\"rule\":{},\"desc\":{},\"mid_ts\":{},\"next_ts\":{},\"seminaive\":{},\"sole_focus\":{},\"no_decomp\":{},\"n_callbacks\":{},\"atoms\":[{}],\"atom_mapping\":[{}],\"variants\":[{},{}],\"cached\":{}}}",
            rule.index(),
            jstr(desc),
            mid_ts.index(),
            next_ts.index(),
            self.seminaive,
            match self.sole_focus {
                Some(f) => f.to_string(),
                None => "null".to_string(),
            },
            self.no_decomp,
            self.add_rule.len(),
            atoms.join(","),
            mapping.join(","),
            variants.0,
            variants.1,
            cached.plan.verif_dump_json()
        )
    }
}

pub(crate) fn dump_run(rule_recs: &[String], ruleset: &core_relations::RuleSet, next_ts: Timestamp) {
    emit(format!(
        "{{\"ev\":\"run\",\"next_ts\":{},\"rules\":[{}],\"ruleset\":{}}}",
        next_ts.index(),
        rule_recs.join(","),
        ruleset.verif_dump_json()
    ));
}

pub(crate) fn dump_funcs(eg: &EGraph) {
    let fs: Vec<String> = eg
        .funcs
        .iter()
        .map(|(id, info)| {
            format!(
                "{{\"func\":{},\"name\":{},\"table\":{},\"func_cols\":{},\"can_subsume\":{},\"rows\":{}}}",
                id.index(),
                jstr(&info.name),
                info.table.index(),
                info.schema.len(),
                info.can_subsume,
                eg.db.get_table(info.table).len()
            )
        })
        .collect();
    emit(format!(
        "{{\"ev\":\"funcs\",\"uf_table\":{},\"ts\":{},\"funcs\":[{}]}}",
        eg.uf_table.index(),
        eg.next_ts().index(),
        fs.join(",")
    ));
}
