"""Adapter between lib/driver.py and the E2 engine (lib/e2/run.py, which needs z3 and therefore runs
under python3-vt as a subprocess)."""
import json
import os
import shutil
import subprocess
import sys

import kani_runner as kr

VERIF = kr.VERIF
RUN = os.path.join(VERIF, "lib", "e2", "run.py")


def run(prop, tier, seed, cfg, log_dir):
    work = os.path.join(kr.scratch_root(), "e2-work-%s" % prop)
    shutil.rmtree(work, ignore_errors=True)
    os.makedirs(work, exist_ok=True)
    out = os.path.join(work, "result.json")
    logp = os.path.join(log_dir, "e2.log")
    cmd = ["python3-vt", RUN, "--prop", prop, "--tier", tier, "--seed", str(seed), "--out", out, "--workdir", work]
    cmd += cfg.get("args", [])
    with open(logp, "w") as lf:
        p = subprocess.run(cmd, stdout=lf, stderr=subprocess.STDOUT, env=kr.base_env(),
                           timeout=cfg.get("wall_cap", 7200))
    try:
        sys.stdout.write("".join(open(logp).readlines()[-6:]))
    except OSError:
        pass
    if not os.path.exists(out):
        return {"error": "e2 runner produced no result (rc=%s); see %s" % (p.returncode, logp), "violations": [],
                "coverage": {}, "assumptions": []}
    r = json.load(open(out))
    rep_dir = os.path.join(VERIF, "replays", prop)
    os.makedirs(rep_dir, exist_ok=True)
    vio = []
    for v in r.get("violations", []):
        dst = v.get("replay")
        if dst and os.path.exists(dst):
            dst2 = os.path.join(rep_dir, os.path.basename(dst))
            shutil.copyfile(dst, dst2)
            dst = dst2
        vio.append({"key": v["key"], "what": v["what"], "replay": dst, "reproduced": bool(v.get("reproduced"))})
    # one reproducing witness is enough for exit 1; candidates that did not reproduce while another did are noise
    if any(v["reproduced"] for v in vio):
        vio = [v for v in vio if v["reproduced"]][:5]
    err = r.get("error")
    if r.get("errors") and not any(v["reproduced"] for v in vio):
        err = (err or "") + "; ".join(r["errors"][:4]) + (" (+%d more)" % (len(r["errors"]) - 4) if len(r["errors"]) > 4 else "")
    cov = {k: r.get(k) for k in ("obligations", "discharged", "queries", "programs", "distinct_nontrivial",
                                 "disagreements_checked", "solver_seconds", "solver", "samples", "distinct_plans",
                                 "plan_kinds", "shape_profile_matrix", "model_vs_real_executor_checks", "bounds",
                                 "model_sha256", "wall_s", "extra", "second_solver_cvc5")}
    if not keep_work():
        shutil.rmtree(work, ignore_errors=True)
    return {"error": err, "violations": vio, "coverage": cov, "assumptions": r.get("assumptions", [])}


def keep_work():
    return bool(os.environ.get("VERIF_KEEP_SCRATCH"))


def replay_file(prop, path, kv):
    cmd = ["python3-vt", RUN, "--prop", prop, "--replay", path, "--out", "/dev/null",
           "--workdir", os.path.join(kr.scratch_root(), "e2-replay-%s" % prop)]
    p = subprocess.run(cmd, env=kr.base_env())
    return p.returncode
