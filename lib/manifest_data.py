"""Source of truth for MANIFEST.json (regenerate with tools/gen_manifest.py)."""

BASELINE_OFF = ("cd /repo && cargo nextest run --workspace --no-fail-fast --offline --test-threads 8 "
                "|| cargo test --workspace --no-fail-fast --offline")

HOOK_COMMITS = [
    "50201a0", "d3f199e", "acd85d7", "e72a8b2", "eac93cc", "570b590", "c58d318", "7808783",
    # filled by hand after each hook commit in /repo:  git -C /repo log --grep '^hook:' --format=%h
]

NA_REASON = {
    "C04": "whole-engine property (rule run + rebuild + container hash-consing + serialisation); no kernel of it is executable under Kani (EGraph construction ICEs the Kani compiler) and it emits no program for E2 to validate",
    "C06": "thread-count independence of whole runs; Kani has no threads and every parallel entry point reaches ArcSwap/Condvar (Kani ICE / unsupported)",
    "C07": "Extractor::bellman_ford closes over &EGraph and scans backend tables through dyn calls into string-keyed hash maps; only Cost::combine (saturating_add) is encodable, which does not decide the property",
    "C08": "relation between two whole command histories on deep-cloned EGraphs; an EGraph cannot be constructed under Kani",
    "C09": "parsing builds String/Vec under symbolic control (lexer on 3 symbolic bytes did not finish in 31 min, 10 GB); atomicity needs the typechecker and TypeInfo executed",
    "C10": "run_schedule is a method on EGraph, which cannot be constructed under Kani; RunReport::union alone does not decide schedule semantics",
    "C11": "equivalence of two Datalog+EqSat programs on all inputs; not a bounded solver query over code reachable here",
    "C12": "ProofStore::check_proof walks a hash-consed TermDag against Vec<ResolvedNCommand>; heap- and string-keyed throughout, out of CBMC's reach",
    "C14": "ContainerEnv is dashmap hash-consing over dyn container values; same wall as C04",
    "C15": "float formatting/parsing and String building are beyond CBMC here; a 3-character round trip would not decide a grammar-wide property",
    "C19": "concurrency; every type in the crate sits on ArcSwap or Condvar (Kani ICE / FAILED on futex FFI); Kani does not model threads",
    "C20": "hyperproperty of two whole process runs; not a bounded query over encodable code",
}

NOT_YET = "check not built yet in this session (planned, see DESIGN.md); not claimed until its obligations discharge"

CHECKS = {
    "C02": dict(
        engine="E2-planval",
        category="translation_validation",
        text=("Translation validation of rule compilation: the real lowering, planner and semi-naive variant construction run on "
              "an enumerated set of rule bodies (<= 4 atoms, arity <= 3; chains, stars, cycles, self-joins, repeated variables, "
              "constants, merge functions with functional dependencies) x size profiles x both :no-decomp settings; a "
              "cfg(egglog_verif) hook dumps the plans and variant requests they produced; z3 executes each dumped plan "
              "symbolically over a symbolic database and decides, for EVERY database within the bounds, that the plan emits "
              "exactly the matches of the source body (no spurious match; no new match lost). Solver witnesses are replayed "
              "through the real binary before being reported."),
        design_ref="DESIGN.md §2 C02, §3.2",
        note=("Bounds: <= 3 rows per table, i64 values in [0,4), eq-sort ids in [0,16) under a union-free discipline (distinct "
              "constructor rows have distinct ids), arbitrary timestamps and subsume flags, keys unique; bodies: relations, min-merge "
              "functions, eq-sort constructors with nested terms, guards (<, !=) and computed values (+), heads that project. "
              "Trusted: the stage semantics in lib/e2/model.py, z3 (cvc5 as second opinion in the thorough tier). Outside the solver "
              "claim: executor internals, bodies beyond the enumeration, containers, databases with unioned constructor rows. "
              "Supplement (not the deciding technique): every generated program is also executed (1 and 4 threads) and its tables "
              "compared with the body's meaning; disagreements are reported as violations."),
        technique="SMT (z3) translation validation of the plans emitted by the real planner, over a symbolic database; witnesses replayed on the real binary",
    ),
    "C03": dict(
        engine="E2-planval",
        category="translation_validation",
        text=("Semi-naive = naive, decided in two parts. (E2) While the real engine runs generated histories (two rulesets "
              "interleaved, rows written at top level and by rules between runs, seminaive and :naive rules) the hook dumps each "
              "run's last_run_at, next_ts, the variant requests and plans; z3 decides for every dumped variant set that its "
              "timestamp constraints cover every match containing a new row, and for every plan set that no new match is lost and "
              "none is spurious, over all databases and timestamps within the bounds; the window chain "
              "(last_run_at == previous next_ts) is checked on every trace. (E1) Kani decides that the timestamp range lookups "
              "turning `ts >= t` / `ts < t` into row ranges are exact."),
        design_ref="DESIGN.md §2 C03",
        note=("Bounds as C02; histories <= 6 runs over 2 rulesets. Outside the solver claim: re-timestamping of rebuilt / refreshed / "
              "container rows, schedules beyond the enumerated ones, counter overflow. Supplement (concrete, not the deciding "
              "technique): the same histories with unions in them are executed with 1 and 4 threads and compared with the body's "
              "meaning modulo congruence closure -- this is what sees rebuild re-timestamping; containers are not generated."),
        technique="SMT (z3) validation of the semi-naive variant sets and plans dumped from the real engine + Kani/CBMC on the timestamp range kernels",
    ),
    "C05": dict(
        category="model_checking",
        text=("Kernel-level bounded model checking (Kani/CBMC) of the LEAF arms of the real merge-expression interpreter "
              "ResolvedMergeFn::run, for all operand values: `old`, `new` and constants evaluate to what they name; a :no-merge function "
              "(AssertEq) invokes the panic function exactly when the incoming value differs from the stored one and never silently keeps "
              "the new one; an eq-sort output (UnionId) keeps one of the two ids independently of their order, the one the real union-find "
              "makes the representative, and stages exactly one union per conflict."),
        design_ref="DESIGN.md §2 C05, §8.2",
        note=("Narrow on purpose: the Primitive and Function arms (lattice merges such as min/max/or, nested merges) are NOT decided -- every "
              "harness in which run() recurses into its argument vector failed to finish under CBMC. That the merge is APPLIED on every "
              "collision (table collision paths, rebuild collisions, parallel insert) and the fold's order independence are outside."),
        technique="bounded model checking of the real Rust code with Kani/CBMC (SAT), symbolic operands and stubbed environment",
    ),
    "C18": dict(
        category="model_checking",
        text=("Kernel-level bounded model checking (Kani/CBMC) of the scheduler's residual-match bookkeeping on the real "
              "scheduler::Matches: for every set of 4 distinct matches and every sequence of <= 4 choose() calls with arbitrary "
              "(possibly repeated) indices, instantiate applies one action row per call, removes exactly the chosen matches from the "
              "residual and keeps every other match exactly once; choose_all applies all and delays none."),
        design_ref="DESIGN.md §2 C18",
        note=("Kernel level only, variable-free tuple layout. Outside: that every match is offered, equalities arising between offer and "
              "application, error paths, can_stop."),
        technique="bounded model checking of the real Rust code with Kani/CBMC (SAT), symbolic match values and chosen indices",
    ),
    "C13": dict(
        engine="E2-planval",
        category="translation_validation",
        text=("Subsumption, decided in two parts. (E2) The real engine runs generated histories that insert rows, subsume some (top level "
              "and from rule actions), re-insert subsumed tuples, run the rule and finally `(check body)`; the hook dumps the plans of "
              "the rule and of the check; z3 decides over all databases with arbitrary subsume flags that no rule plan can match a "
              "subsumed row (and none loses a match on live rows) while every check plan still matches subsumed rows; every history is "
              "also compared concretely with the body's meaning. (E1) Kani decides that combining subsume flags is absorbing in either "
              "order and that the flag / timestamp columns are where the plans look for them."),
        design_ref="DESIGN.md §2 C13",
        note=("Partial: matching and check only. Outside: flag survival through rebuild of congruent rows, rehash, parallel insert, "
              "push/pop; extraction; delete; merge functions (cannot be subsumed)."),
        technique="SMT (z3) validation of rule and check plans dumped from the real engine with symbolic subsume flags + Kani/CBMC on the flag algebra",
    ),
    "C16": dict(
        category="model_checking",
        text=("Bounded model checking (Kani/CBMC) of the table store's index / scan kernels from arbitrary symbolic states: "
              "DisplacedTable::{timestamp_bounds, fast_subset, expand, eval, get_row_column, clear}, "
              "SortedOffsetSlice::{scan_for_offset, binary_search_from}, SubsetRef::iter_bounded (dense and sparse), "
              "Subset::intersect (all four arms), Subset::add_row_sorted (the two dense arms), Offsets::bounds / SubsetRef::size, OffsetRange::offsets. Each harness is one SAT query over every state within the bounds and asserts the "
              "kernel against a row-by-row specification."),
        design_ref="DESIGN.md §2 C16",
        note=("Kernel level: <= 3 displaced rows, forest of 4 ids, sorted slices <= 6. Outside: whole-table operation sequences, "
              "hash point lookups with symbolic keys, insert/delete/rehash/compaction, Index::refresh, clone."),
        technique="bounded model checking of the real Rust code with Kani/CBMC (SAT) from symbolic data-structure states",
    ),
    "C01": dict(
        category="model_checking",
        text=("Kernel-level bounded model checking (Kani/CBMC) of what congruence closure rests on: the canonicaliser "
              "Canonicalizer::rebuild_buf (all hand-specialised arms) and rebuild_val rewrite exactly the listed columns to their "
              "union-find representatives for every forest of 4 ids and every row; the UnionId merge kernel keeps, for every pair of ids, "
              "the id the real union-find makes the representative and stages exactly one union per conflict; the union-find itself is C17."),
        design_ref="DESIGN.md §2 C01",
        note=("Kernel level only. Outside: EGraph::rebuild's fixpoint loop, congruence through key collisions in SortedWritesTable, "
              "matching modulo equality."),
        technique="bounded model checking of the real Rust code with Kani/CBMC (SAT) from symbolic union-find forests and rows",
    ),
    "C17": dict(
        category="model_checking",
        text=("Bounded model checking (Kani/CBMC) of the real union-finds. Sequential UnionFind::{union, find, find_naive, reserve, "
              "reset}: each harness is one solver query over every parent forest of N=5 ids satisfying the representation invariant, "
              "for one concrete argument tuple, asserting the exact partition post-condition (the two classes merged, nothing else "
              "moved, representative = minimum); base case + inductive step => histories of any length within N. Concurrent "
              "ConcurrentUnionFind::{merge, find, same_set} over a harness atomic cell: before every atomic access an adversarial "
              "environment may perform up to B link / compress writes (interleavings as data); asserted: every write of the code is "
              "itself a link or compress step (guarantee), and under the rely merge / find / same_set meet their linearizable "
              "specifications."),
        design_ref="DESIGN.md §2 C17",
        note=("Bounds: N=5 (sequential), N=4 and B<=1 quick / B<=2 thorough (concurrent). Id arguments case-split, forest contents "
              "symbolic. Atomics sequentially consistent in the model. Outside: N beyond the bounds, weak-memory reorderings, and the "
              "real Buffer (dynamic resizing, reset, deep_copy), which is replaced by a plain-Vec stand-in under cfg(kani). Trusted: "
              "Kani's MIR->goto translation, CBMC, CaDiCaL."),
        technique="bounded model checking of the real Rust code with Kani/CBMC (SAT), inductive-step harnesses from a symbolic invariant state; interleavings modelled as adversarial writes",
    ),
}


def build():
    checks = []
    for pid in sorted(CHECKS):
        c = CHECKS[pid]
        checks.append({
            "property_id": pid,
            "quick_cmd": "bin/check %s --tier quick" % pid,
            "thorough_cmd": "bin/check %s --tier thorough" % pid,
            "evidence_file": "/verif/evidence/%s.json" % pid,
            "replay_cmd_template": "bin/check %s --replay {path}" % pid,
            "engine": c.get("engine", "E1-kani"),
            "level_claimed": {"category": c["category"], "text": c["text"], "design_ref": c["design_ref"]},
            "level_note": c["note"],
            "technique": c["technique"],
        })
    na = []
    for i in range(1, 21):
        pid = "C%02d" % i
        if pid in CHECKS:
            continue
        na.append({"property_id": pid, "reason": NA_REASON.get(pid, NOT_YET)})
    return {
        "version": 1,
        "setup_cmd": "bin/setup",
        "hooks": {
            "guard": "cfg(kani) for Kani harness includes (set only by cargo kani); cfg(egglog_verif) for the plan dump (set by /verif via RUSTFLAGS)",
            "enable": "E1: `cargo kani` sets --cfg kani; harness sources are include!d from $EGGLOG_VERIF_DIR/kani. E2: lib/e2/run.py builds /repo's own `egglog` binary with RUSTFLAGS='--cfg egglog_verif' into a scratch target dir; hook sources are include!d from $EGGLOG_VERIF_DIR/engines/dump; the dump goes to the file named by $EGGLOG_VERIF_DUMP",
            "baseline_off_cmd": BASELINE_OFF,
            "source_commits": HOOK_COMMITS,
            "add_only": True,
        },
        "engines": [
            {"name": "E1-kani", "path": "/verif/kani", "serves_properties": sorted(p for p in CHECKS if "kani" in CHECKS[p].get("engine", "E1-kani")),
             "kind_free_text": "Kani 0.68 / CBMC 6.11 proof harnesses included into the real crates under cfg(kani)"},
            {"name": "E2-planval", "path": "/verif/lib/e2", "serves_properties": sorted(p for p in CHECKS if CHECKS[p].get("engine") == "E2-planval"),
             "kind_free_text": "z3 translation validation of plans dumped from the real planner (hook sources in /verif/engines/dump)"},
        ],
        "checks": checks,
        "notes": "Solver-based checking of the real code only; see DESIGN.md. Exit 2 = inconclusive (never reported as success).",
        "not_applicable": na,
    }
