"""Orchestration: run the obligation groups of one property, classify, replay, write evidence."""
import concurrent.futures as cf
import hashlib
import json
import os
import random
import re
import shutil
import subprocess
import sys
import time

import kani_runner as kr
from props import PROPS

VERIF = kr.VERIF
REPO = kr.REPO
EVID = os.path.join(VERIF, "evidence")
REPLAYS = os.path.join(VERIF, "replays")
KNOWN = os.path.join(VERIF, "known_findings.txt")


def log(*a):
    print(*a, flush=True)


# ----------------------------------------------------------------------------------------------
# known findings


def load_known():
    """lines:  known: property=<id> key=<harness-or-plan-key> <free text>
               fixed: property=<id> <commit> <what failed>        (suppresses nothing)"""
    known = []
    if os.path.exists(KNOWN):
        for line in open(KNOWN):
            line = line.strip()
            if not line or line.startswith("#"):
                continue
            m = re.match(r"known:\s+property=(\S+)\s+key=(\S+)\s*(.*)", line)
            if m:
                known.append({"property": m.group(1), "key": m.group(2), "text": m.group(3)})
    return known


# ----------------------------------------------------------------------------------------------
# replay of a Kani counterexample against a native build


def replay_kani(prop, group, hname, full_name, out_dir):
    """Re-run the failing harness with concrete playback in a scratch copy of /repo + /verif/kani, then
    execute the generated unit test natively.  Returns (reproduced: bool|None, artefact_path, note)."""
    root = os.path.join(kr.scratch_root(), "replay-%s-%s" % (group["name"], hname))
    shutil.rmtree(root, ignore_errors=True)
    os.makedirs(root)
    repo_c = os.path.join(root, "repo")
    verif_c = os.path.join(root, "verif")
    os.makedirs(os.path.join(verif_c, "kani"))
    subprocess.run(["rsync", "-a", "--exclude", "/target", "--exclude", ".git", REPO + "/", repo_c + "/"], check=True)
    subprocess.run(["rsync", "-a", os.path.join(VERIF, "kani") + "/", os.path.join(verif_c, "kani") + "/"], check=True)
    env = kr.base_env()
    env["EGGLOG_VERIF_DIR"] = verif_c
    tdir = os.path.join(root, "t")
    cwd = os.path.join(repo_c, group["crate"])
    os.makedirs(out_dir, exist_ok=True)
    art = os.path.join(out_dir, "%s.replay.txt" % hname)
    gen = subprocess.run(
        ["cargo", "kani", "-Z", "stubbing", "-Z", "concrete-playback", "--concrete-playback=print",
         "--harness", full_name, "--exact", "--target-dir", tdir],
        cwd=cwd, env=env, capture_output=True, text=True, timeout=group["harness_timeout"] + 900)
    # Kani prints one unit test per failing check / satisfied cover; append them all to the scratch copy of
    # the harness file (module level, so macro-generated harnesses are fine) and run them natively.
    gout = gen.stdout + gen.stderr
    tests = re.findall(r"(#\[test\]\s*fn (kani_concrete_playback_%s_\w+)\(\)\s*\{.*?\n\})" % re.escape(hname), gout, re.S)
    seen, uniq = set(), []
    for src, nm in tests:
        if nm not in seen:
            seen.add(nm)
            uniq.append((src, nm))
    test_name, test_src, src_file = None, None, None
    if uniq:
        for fn in sorted(os.listdir(os.path.join(verif_c, "kani"))):
            pth = os.path.join(verif_c, "kani", fn)
            if re.search(r"\b%s\b" % re.escape(hname), open(pth).read()):
                src_file = fn
                with open(pth, "a") as f:
                    f.write("\n// ---- appended by /verif replay ----\n")
                    for src, nm in uniq:
                        f.write(src + "\n")
                break
        test_name = "kani_concrete_playback_%s_" % hname
        test_src = "\n\n".join(src for src, _ in uniq)
    note = ""
    reproduced = None
    results = {}
    if test_name:
        for prof, extra in (("dev", []),):
            pb = subprocess.run(
                ["cargo", "kani", "playback", "-Z", "concrete-playback", "-Z", "stubbing"] + extra + ["--", test_name],
                cwd=cwd, env=env, capture_output=True, text=True, timeout=1800)
            out = pb.stdout + pb.stderr
            failed = ("test result: FAILED" in out) or re.search(r"panicked at", out) is not None
            passed = re.search(r"test result: ok\. [1-9]\d* passed", out) is not None
            results[prof] = "fails (reproduces)" if failed else ("passes" if passed else "did not run")
            tail = "\n".join(out.splitlines()[-40:])
            note += "\n--- native playback (%s) ---\n%s\n" % (prof, tail)
            if failed:
                reproduced = True
            elif passed and reproduced is None:
                reproduced = False
    else:
        note += "\nno concrete playback test was generated\n" + "\n".join((gen.stdout + gen.stderr).splitlines()[-60:])
    with open(art, "w") as f:
        f.write("property=%s\nkind=kani\ngroup=%s\ncrate=%s\nharness=%s\nfull_name=%s\nsource_file=%s\n"
                % (prop, group["name"], group["crate"], hname, full_name, src_file))
        f.write("native_playback=%s\n" % json.dumps(results))
        f.write("\n# generated concrete-playback unit test (values chosen by the solver):\n")
        f.write((test_src or "<none>") + "\n")
        f.write(note)
    shutil.rmtree(root, ignore_errors=True)
    return reproduced, art, note


def replay(prop, path):
    """check <id> --replay <path>: re-run the recorded counterexample natively."""
    kv = {}
    body = open(path).read()
    for line in body.splitlines():
        if "=" in line and not line.startswith("#") and not line.startswith(" "):
            k, v = line.split("=", 1)
            kv.setdefault(k.strip(), v.strip())
    if kv.get("kind") == "kani":
        cfg = None
        for tier in ("quick", "thorough"):
            for g in PROPS[prop][tier].get("kani", []):
                if g["name"] == kv["group"]:
                    cfg = g
        if cfg is None:
            log("unknown group", kv.get("group"))
            return 2
        rep, art, note = replay_kani(prop, cfg, kv["harness"], kv["full_name"], os.path.join(REPLAYS, prop))
        log(note)
        if rep:
            log("VIOLATION property=%s replay=%s" % (prop, art))
            return 1
        log("counterexample did not reproduce (or harness now passes)")
        return 0 if rep is False else 2
    if kv.get("kind") == "e2":
        import e2
        return e2.replay_file(prop, path, kv)
    log("unknown replay kind")
    return 2


# ----------------------------------------------------------------------------------------------


def run_property(prop, tier, seed, keep_scratch=False, only=None):
    if prop not in PROPS:
        log("property %s is not claimed (see MANIFEST.json not_applicable)" % prop)
        return 2
    cfg = PROPS[prop]
    t0 = time.time()
    tcfg = cfg[tier]
    log_dir = os.path.join(kr.scratch_root(), "logs", prop)
    shutil.rmtree(log_dir, ignore_errors=True)
    os.makedirs(log_dir, exist_ok=True)
    groups = list(tcfg.get("kani", []))
    if only:
        groups = [g for g in groups if only in g["name"]]
    rnd = random.Random(seed)
    rnd.shuffle(groups)  # VERIF_SEED only permutes scheduling order; verdicts do not depend on it

    watch = kr.MemWatch(cap_gb=float(os.environ.get("VERIF_CBMC_CAP_GB", "14")))
    watch.start()
    results = {}
    e2_res = None
    with cf.ThreadPoolExecutor(max_workers=max(1, len(groups) + 1)) as ex:
        futs = {}
        for g in groups:
            futs[ex.submit(kr.run_group, g["name"], g["crate"], g["patterns"], g["jobs"],
                           g["harness_timeout"], g["wall_cap"], log_dir)] = g
        e2_f = None
        if tcfg.get("e2") and not only:
            import e2
            e2_f = ex.submit(e2.run, prop, tier, seed, tcfg["e2"], log_dir)
        elif tcfg.get("e2") and only and "e2" in only:
            import e2
            e2_f = ex.submit(e2.run, prop, tier, seed, tcfg["e2"], log_dir)
        for f in cf.as_completed(list(futs)):
            g = futs[f]
            try:
                results[g["name"]] = (g, f.result())
            except Exception as e:  # noqa
                results[g["name"]] = (g, {"harnesses": {}, "error": "driver exception %r" % (e,), "log": "", "wall_s": 0,
                                          "stubs": [], "cmd": ""})
        if e2_f is not None:
            try:
                e2_res = e2_f.result()
            except Exception as e:  # noqa
                import traceback
                traceback.print_exc()
                e2_res = {"error": "e2 driver exception %r" % (e,), "obligations": [], "violations": [],
                          "coverage": {}, "assumptions": []}
    watch.stop()

    known = [k for k in load_known() if k["property"] == prop]
    known_keys = {k["key"]: k for k in known}

    n_checks = 0
    discharged, vacuous, undischarged, violated = [], [], [], []
    samples = []
    functions = set()
    stubs = set()
    solver_s = 0.0
    per_h = {}
    errors = []
    for gname, (g, r) in sorted(results.items()):
        if r.get("error"):
            errors.append("%s: %s (log %s)" % (gname, r["error"], r.get("log")))
        stubs.update(r.get("stubs") or [])
        for hname, h in sorted(r["harnesses"].items()):
            verdict, why = kr.classify(h)
            n_checks += h["checks_total"]
            functions.update(h["functions"])
            solver_s += float(h["solver_s"] or 0)
            per_h[hname] = {"verdict": verdict, "why": why, "kani_status": h["status"], "checks": h["checks_total"],
                            "wall_s": h["duration_s"], "solver_s": h["solver_s"], "vccs": h["vccs"],
                            "covers": ["%s=%s" % (c["description"], c["status"]) for c in h["covers"]]}
            {"discharged": discharged, "vacuous": vacuous, "undischarged": undischarged,
             "violated": violated}[verdict].append((g, hname, h, why))
        if not r["harnesses"] and not r.get("error"):
            errors.append("%s: no harness matched %s" % (gname, g["patterns"]))

    # expected-harness floor: a property that silently lost harnesses (renamed / cfg'd out) is an error.
    # Counted per property: the patterns of one group may also match harnesses another group of the same property runs.
    all_pats = sorted({p for g in groups for p in g["patterns"]})
    exp = count_harnesses_in_sources(all_pats)
    ran = sum(len(r["harnesses"]) for _, (g, r) in results.items())
    if exp and ran < exp and not any(r.get("error") for _, (g, r) in results.items()) and not only:
        errors.append("%d harnesses ran but %d are defined under /verif/kani for %s" % (ran, exp, all_pats))

    violations_out = []
    known_out = []
    nonrepro = []
    # Replay: every failing harness that is keyed in known_findings.txt, plus up to MAX_REPLAY others
    # (the rest are listed as failed-not-replayed; one reproducing counterexample is enough for exit 1).
    MAX_REPLAY = int(os.environ.get("VERIF_MAX_REPLAY", "3"))
    to_replay = [v for v in violated if v[1] in known_keys]
    others = [v for v in violated if v[1] not in known_keys]
    to_replay += others[:MAX_REPLAY]
    not_replayed = others[MAX_REPLAY:]

    def _rp(v):
        g, hname, h, why = v
        log("harness %s FAILED (%s); replaying natively ..." % (hname, why))
        try:
            return v, replay_kani(prop, g, hname, h["full_name"], os.path.join(REPLAYS, prop))
        except Exception as e:  # noqa
            return v, (None, "", "replay driver exception %r" % (e,))

    if to_replay:
        with cf.ThreadPoolExecutor(max_workers=4) as ex:
            for (g, hname, h, why), (rep, art, note) in ex.map(_rp, to_replay):
                if rep:
                    if hname in known_keys:
                        known_out.append((hname, known_keys[hname]["text"]))
                    else:
                        violations_out.append((hname, art, why))
                else:
                    nonrepro.append((hname, art, why))
    any_repro = bool(violations_out)
    for g, hname, h, why in not_replayed:
        log("harness %s FAILED (%s); not replayed (%d others were)" % (hname, why, MAX_REPLAY))
        if not any_repro:
            nonrepro.append((hname, "", why + " [not replayed]"))

    # E2 part
    e2_cov = {}
    if e2_res is not None:
        if e2_res.get("error"):
            errors.append("e2: " + e2_res["error"])
        for v in e2_res.get("violations", []):
            if v.get("reproduced"):
                if v["key"] in known_keys:
                    known_out.append((v["key"], known_keys[v["key"]]["text"]))
                else:
                    violations_out.append((v["key"], v["replay"], v["what"]))
            else:
                nonrepro.append((v["key"], v.get("replay", ""), v["what"]))
        e2_cov = e2_res.get("coverage", {})

    # samples: a few harnesses written out
    pick = sorted(per_h.items())
    rnd.shuffle(pick)
    for hname, info in pick[:6]:
        samples.append({"harness": hname, **info})
    for s in (e2_cov.get("samples") or [])[:6]:
        samples.append(s)

    n_obl = len(per_h) + int(e2_cov.get("obligations", 0))
    n_dis = len(discharged) + int(e2_cov.get("discharged", 0))
    wall = time.time() - t0
    coverage = {
        "evaluations": n_checks + int(e2_cov.get("queries", 0)),
        "distinct_nontrivial": len(discharged) + int(e2_cov.get("distinct_nontrivial", 0)),
        "rule": cfg["rule"],
        "samples": samples,
        "obligations": n_obl,
        "discharged": n_dis,
        "harnesses": per_h,
        "functions_encoded": sorted(f for f in functions if not f.startswith(("std::", "core::", "alloc::", "<std", "<core", "<alloc", "__", "malloc", "calloc", "free", "realloc", "memcpy", "memcmp", "memset", "memmove")))[:400],
        "stubs_applied": sorted(stubs),
        "solver_seconds": round(solver_s + float(e2_cov.get("solver_seconds", 0)), 2),
        "solver": "CBMC 6.11.0 + CaDiCaL via Kani 0.68.0" + ("; " + e2_cov["solver"] if e2_cov.get("solver") else ""),
        "undischarged": [{"harness": hn, "why": why} for _, hn, _, why in undischarged]
                        + [{"harness": hn, "why": "vacuous: " + why} for _, hn, _, why in vacuous]
                        + [{"harness": hn, "why": "counterexample did not reproduce natively: " + why, "replay": art}
                           for hn, art, why in nonrepro],
        "errors": errors,
        "cbmc_peak_rss_gb": round(watch.peak_kb / 1048576.0, 2),
        "cbmc_killed_for_memory": len(watch.killed),
        "groups": {gn: {"cmd": r.get("cmd"), "wall_s": round(r.get("wall_s", 0), 1)} for gn, (g, r) in results.items()},
        "repo_tree": repo_fingerprint(),
    }
    if e2_cov:
        coverage["e2"] = {k: v for k, v in e2_cov.items() if k != "samples"}
        if cfg["level"] == "translation_validation":
            # 'programs' = distinct emitted plan sets validated (each by the solver); the number of concrete egglog
            # programs run to obtain them is reported as concrete_programs_run
            coverage["programs"] = int(e2_cov.get("distinct_plans", 0))
            coverage["concrete_programs_run"] = int(e2_cov.get("programs", 0))
            coverage["disagreements_checked"] = int(e2_cov.get("disagreements_checked", 0))
    ev = {
        "property_id": prop,
        "tier": tier,
        "seed": seed,
        "level": cfg["level"],
        "coverage": coverage,
        "assumptions": list(cfg["assumptions"]) + list((e2_res or {}).get("assumptions", [])),
        "wall_s": round(wall, 1),
        "violations": len(violations_out),
    }
    os.makedirs(EVID, exist_ok=True)
    with open(os.path.join(EVID, prop + ".json"), "w") as f:
        json.dump(ev, f, indent=1, sort_keys=False)

    if not keep_scratch:
        for g in groups:
            kr.cleanup(g["name"])

    log("== %s tier=%s: %d obligations, %d discharged, %d vacuous, %d undischarged, %d failed harnesses; %.0f s"
        % (prop, tier, n_obl, n_dis, len(vacuous), len(undischarged), len(violated), wall))
    for k, text in known_out:
        log("KNOWN-FINDING: property=%s %s %s" % (prop, k, text))
    for e in errors:
        log("ERROR:", e)
    for _, hn, _, why in undischarged:
        log("UNDISCHARGED: %s: %s" % (hn, why))
    for _, hn, _, why in vacuous:
        log("VACUOUS: %s: %s" % (hn, why))
    for hn, art, why in nonrepro:
        log("NON-REPRODUCING: %s: %s (%s)" % (hn, why, art))
    if violations_out:
        for hn, art, why in violations_out:
            log("counterexample: %s: %s" % (hn, why))
            log("VIOLATION property=%s replay=%s" % (prop, art))
        return 1
    if errors or undischarged or vacuous or nonrepro:
        return 2
    if n_obl == 0:
        log("ERROR: no obligations ran")
        return 2
    return 0


def count_harnesses_in_sources(patterns):
    n = 0
    kd = os.path.join(VERIF, "kani")
    names = set()
    for fn in os.listdir(kd):
        if not fn.endswith(".rs"):
            continue
        s = open(os.path.join(kd, fn)).read()
        # plain `fn name()` after #[kani::proof], and macro invocations `xxx_harness!(name, ...)`
        for m in re.finditer(r"#\[kani::proof\][^{]*?fn\s+(\w+)\s*\(", s, re.S):
            names.add(m.group(1))
        for m in re.finditer(r"^\s*\w+_harness!\(\s*(\w+)\s*[,)]", s, re.M):
            names.add(m.group(1))
    names.discard("$name")
    for nme in names:
        if any(p in nme for p in patterns):
            n += 1
    return n


def repo_fingerprint():
    try:
        head = subprocess.run(["git", "-C", REPO, "rev-parse", "HEAD"], capture_output=True, text=True).stdout.strip()
        diff = subprocess.run(["git", "-C", REPO, "diff", "HEAD"], capture_output=True, text=True).stdout
        return {"head": head, "dirty": bool(diff.strip()),
                "diff_sha256": hashlib.sha256(diff.encode()).hexdigest()[:16] if diff.strip() else None}
    except Exception:
        return {}
