"""E1 — run Kani harnesses that live in /verif/kani against /repo's working tree.

One `cargo kani` process per crate group, compiled from /repo itself (the
current working tree), own --target-dir under the scratch directory, results
taken from Kani's own --export-json.  Nothing here decides a property: the
verdict per harness is CBMC's, as reported by Kani (unwinding assertions on).
"""
import json
import os
import re
import shutil
import signal
import subprocess
import threading
import time

REPO = os.environ.get("EGGLOG_REPO", "/repo")
VERIF = os.path.dirname(os.path.dirname(os.path.abspath(__file__)))


def scratch_root():
    d = os.environ.get("VERIF_SCRATCH", "/var/tmp/egglog-verif-scratch")
    os.makedirs(d, exist_ok=True)
    return d


def base_env():
    env = dict(os.environ)
    env["EGGLOG_VERIF_DIR"] = os.environ.get("EGGLOG_VERIF_DIR", VERIF)
    env["CARGO_NET_OFFLINE"] = "true"
    env.pop("RUSTFLAGS", None)
    env.pop("RUSTUP_TOOLCHAIN", None)
    return env


class MemWatch(threading.Thread):
    """Kill any cbmc process of ours whose RSS exceeds the cap (an OOM is never success:
    the harness then reports as not SUCCESSFUL and is listed undischarged)."""

    def __init__(self, cap_gb, total_gb=52.0):
        super().__init__(daemon=True)
        self.cap_kb = int(cap_gb * 1024 * 1024)
        self.total_kb = int(total_gb * 1024 * 1024)
        self.killed = []
        self.peak_kb = 0
        self._stop = threading.Event()

    def run(self):
        while not self._stop.wait(5.0):
            try:
                out = subprocess.run(["ps", "-eo", "pid,rss,comm"], capture_output=True, text=True).stdout
            except Exception:
                continue
            procs = []
            for line in out.splitlines()[1:]:
                parts = line.split(None, 2)
                if len(parts) == 3 and parts[2].strip() == "cbmc":
                    procs.append((int(parts[0]), int(parts[1])))
            tot = sum(r for _, r in procs)
            for pid, rss in procs:
                self.peak_kb = max(self.peak_kb, rss)
                if rss > self.cap_kb:
                    self._kill(pid, rss)
            if tot > self.total_kb and procs:
                pid, rss = max(procs, key=lambda x: x[1])
                self._kill(pid, rss)

    def _kill(self, pid, rss):
        try:
            os.kill(pid, signal.SIGKILL)
            self.killed.append((pid, rss))
        except OSError:
            pass

    def stop(self):
        self._stop.set()


def run_group(name, crate_dir, patterns, jobs, harness_timeout_s, wall_cap_s, log_dir, exact=False,
              extra_args=None):
    """Run every harness of `crate_dir` whose name contains one of `patterns`.
    Returns dict(harnesses={name: {...}}, error=None|str, log=path, compile_and_run_s=float)."""
    tdir = os.path.join(scratch_root(), "kani-" + name)
    os.makedirs(log_dir, exist_ok=True)
    out_json = os.path.join(log_dir, name + ".kani.json")
    log_path = os.path.join(log_dir, name + ".kani.log")
    if os.path.exists(out_json):
        os.remove(out_json)
    cmd = ["cargo", "kani", "-Z", "stubbing", "-Z", "unstable-options",
           "--target-dir", tdir, "-j", str(jobs), "--output-format", "terse",
           "--harness-timeout", "%ds" % harness_timeout_s,
           "--export-json", out_json, "--no-assertion-reach-checks"]
    if exact:
        cmd.append("--exact")
    for p in patterns:
        cmd += ["--harness", p]
    if extra_args:
        cmd += extra_args
    t0 = time.time()
    err = None
    with open(log_path, "w") as lf:
        lf.write("# cwd=%s\n# %s\n" % (os.path.join(REPO, crate_dir), " ".join(cmd)))
        lf.flush()
        p = subprocess.Popen(cmd, cwd=os.path.join(REPO, crate_dir), env=base_env(),
                             stdout=lf, stderr=subprocess.STDOUT, start_new_session=True)
        try:
            rc = p.wait(timeout=wall_cap_s)
        except subprocess.TimeoutExpired:
            try:
                os.killpg(p.pid, signal.SIGKILL)
            except OSError:
                pass
            p.wait()
            rc = None
            err = "wall cap %ds hit for group %s" % (wall_cap_s, name)
    dt = time.time() - t0
    res = {"harnesses": {}, "error": err, "log": log_path, "wall_s": dt, "rc": rc, "stubs": [],
           "cmd": " ".join(cmd)}
    try:
        with open(log_path, errors="replace") as f:
            txt = f.read()
    except OSError:
        txt = ""
    res["stubs"] = sorted(set(re.findall(r"- Stub: *(\S.*)", txt)))
    if "internal compiler error" in txt or "Kani unexpectedly panicked" in txt:
        res["error"] = (res["error"] or "") + " kani-compiler ICE"
    if re.search(r"^error(\[E\d+\])?:", txt, re.M) and not os.path.exists(out_json):
        res["error"] = (res["error"] or "") + " build error (see log)"
    if os.path.exists(out_json):
        try:
            with open(out_json) as f:
                d = json.load(f)
            res["harnesses"] = parse_export(d)
            res["tools"] = d.get("tools", {})
        except Exception as e:  # noqa
            res["error"] = (res["error"] or "") + " cannot parse export-json: %r" % (e,)
    elif not res["error"]:
        res["error"] = "no export-json produced (rc=%r); see %s" % (rc, log_path)
    return res


COVER_OK = ("satisfied", "covered")


def parse_export(d):
    hs = {}
    stats = {}
    for c in d.get("cbmc", []) or []:
        stats[c.get("harness_id")] = (c.get("cbmc_stats") or {})
    meta = {m.get("pretty_name"): m for m in d.get("harness_metadata", []) or []}
    for r in (d.get("verification_results", {}) or {}).get("results", []) or []:
        hid = r.get("harness_id")
        checks = r.get("checks") or []
        n_total = len(checks)
        failed, covers, unwind_fail, undetermined = [], [], [], 0
        n_pass = 0
        functions = set()
        for c in checks:
            st = str(c.get("status", "")).lower()
            cat = str(c.get("category", "")).lower()
            desc = str(c.get("description", ""))
            if c.get("function"):
                functions.add(c.get("function"))
            if cat == "cover" or st in ("satisfied", "unsatisfiable", "covered", "uncovered"):
                covers.append({"description": desc, "status": st})
                continue
            if st == "success":
                n_pass += 1
            elif st == "failure":
                failed.append({"description": desc, "category": cat,
                               "function": c.get("function"), "location": c.get("location")})
                if "unwind" in cat or "unwinding assertion" in desc:
                    unwind_fail.append(desc)
            elif st == "undetermined":
                undetermined += 1
        s = stats.get(hid, {})
        hs[short(hid)] = {
            "full_name": hid,
            "status": r.get("status"),
            "duration_s": (r.get("duration_ms") or 0) / 1000.0,
            "checks_total": n_total,
            "checks_passed": n_pass,
            "failed": failed,
            "undetermined": undetermined,
            "unwind_failures": unwind_fail,
            "covers": covers,
            "functions": sorted(functions),
            "solver_s": s.get("runtime_solver_s") or s.get("runtime_decision_procedure_s"),
            "vccs": s.get("vccs_generated"),
            "vccs_remaining": s.get("vccs_remaining"),
            "program_size": s.get("size_program_expression"),
            "source": (meta.get(hid) or {}).get("source"),
        }
    return hs


def short(hid):
    return hid.split("::")[-1] if hid else hid


def classify(h):
    """-> ('discharged'|'violated'|'vacuous'|'undischarged', reason)"""
    st = str(h.get("status", "")).lower()
    wit = [c for c in h["covers"] if c["description"].startswith("witness")]
    bad_wit = [c for c in wit if c["status"] not in COVER_OK]
    if st == "success":
        if h["undetermined"] or h["unwind_failures"]:
            return "undischarged", "undetermined checks / unwinding"
        if not wit:
            return "vacuous", "harness has no witness cover"
        if bad_wit:
            return "vacuous", "witness cover not satisfied: %s" % bad_wit[0]["description"]
        return "discharged", ""
    if h["unwind_failures"]:
        return "undischarged", "unwinding assertion failed: " + h["unwind_failures"][0]
    real = [f for f in h["failed"] if "unwind" not in (f.get("category") or "")]
    if st == "failure" and real:
        return "violated", real[0]["description"]
    return "undischarged", "status=%s (timeout / out of memory / solver error)" % h.get("status")


def cleanup(name):
    tdir = os.path.join(scratch_root(), "kani-" + name)
    shutil.rmtree(tdir, ignore_errors=True)
