"""Per-property obligation tables.  Harness names are substring patterns
(Kani's --harness filter); `cNN_` = quick tier, `cNNt_` = thorough only.

A `kani` group = one `cargo kani` process (one compile of that crate from
/repo's working tree).  `e2` groups are run by lib/e2.py.
"""

# name, crate dir (relative to /repo), patterns, jobs, per-harness timeout (s), wall cap (s)


def G(name, crate, pats, jobs=8, ht=900, wall=2400):
    return dict(name=name, crate=crate, patterns=pats, jobs=jobs, harness_timeout=ht, wall_cap=wall)


PROPS = {
    "C17": {
        "level": "model_checking",
        "quick": {
            "kani": [
                G("c17-ufseq", "union-find", ["c17_seq_"], jobs=12, ht=300, wall=1200),
            ],
        },
        "thorough": {
            "kani": [
                G("c17-ufseq", "union-find", ["c17_seq_", "c17t_seq_"], jobs=12, ht=1800, wall=5400),
            ],
        },
        "rule": ("one Kani harness = one solver query over ALL parent forests of N ids satisfying "
                 "Inv (parents[i] <= i) for one concrete argument tuple of one real operation; a harness is "
                 "non-trivial iff every `witness:` cover in it is SATISFIED (the assumptions are satisfiable "
                 "and the assertions are reached)"),
        "assumptions": [
            "bounded: N = 5 ids (sequential); no N-dependent constant in the code is an argument, not a proof",
            "UnionFind<Value> instantiated at Value = usize",
            "id arguments are case-split concretely (a symbolic id reaching Vec growth in reserve() runs CBMC out of memory)",
            "CBMC/Kani semantics of Rust MIR; unwinding assertions enabled (a too-small unwind bound is reported, not truncated)",
        ],
    },
}
