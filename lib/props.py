"""Per-property obligation tables.  Harness names are substring patterns
(Kani's --harness filter); `cNN_` = quick tier, `cNNt_` = thorough only.

A `kani` group = one `cargo kani` process (one compile of that crate from
/repo's working tree).  `e2` groups are run by lib/e2.py.
"""

# name, crate dir (relative to /repo), patterns, jobs, per-harness timeout (s), wall cap (s)


def G(name, crate, pats, jobs=8, ht=900, wall=2400):
    return dict(name=name, crate=crate, patterns=pats, jobs=jobs, harness_timeout=ht, wall_cap=wall)


PROPS = {
    "C17": {
        "level": "model_checking",
        "quick": {
            "kani": [
                G("c17-uf", "union-find", ["c17_seq_", "c17_conc_"], jobs=14, ht=900, wall=2400),
            ],
        },
        "thorough": {
            "kani": [
                G("c17-uf", "union-find", ["c17_seq_", "c17_conc_", "c17t_"], jobs=14, ht=3600, wall=10800),
            ],
        },
        "rule": ("one Kani harness = one solver query over ALL parent forests of N ids satisfying "
                 "Inv (parents[i] <= i) for one concrete argument tuple of one real operation; a harness is "
                 "non-trivial iff every `witness:` cover in it is SATISFIED (the assumptions are satisfiable "
                 "and the assertions are reached)"),
        "assumptions": [
            "bounded: N = 5 ids (sequential), N = 4 ids (concurrent); no N-dependent constant in the code is an argument, not a proof",
            "concurrent: interleavings are modelled as <= B writes by an adversarial environment before any atomic access of the call under test (B = 0,1 quick; B <= 2 thorough); the environment performs link / compress steps, shown closed under what the code itself writes (guarantee assertions in SymAtomic::cas/store)",
            "concurrent: atomics are sequentially consistent in the model (the code uses Acquire/Release/AcqRel); weak-memory reorderings are outside",
            "concurrent: Buffer is replaced under cfg(kani) by a plain-Vec stand-in (the real one sits on ArcSwap, which crashes the Kani compiler): the resize protocol, reset and deep_copy are outside",
            "ConcurrentUnionFind<T> instantiated at T = SymAtomic (harness cell type, Underlying = u32)",
            "UnionFind<Value> instantiated at Value = usize",
            "id arguments are case-split concretely (a symbolic id reaching Vec growth in reserve() runs CBMC out of memory)",
            "CBMC/Kani semantics of Rust MIR; unwinding assertions enabled (a too-small unwind bound is reported, not truncated)",
        ],
    },
    "C16": {
        "level": "model_checking",
        "quick": {
            "kani": [
                G("c16-cr", "core-relations", ["c16_"], jobs=12, ht=1200, wall=3000),
            ],
        },
        "thorough": {
            "kani": [
                G("c16-cr", "core-relations", ["c16_", "c16t_"], jobs=12, ht=3600, wall=10800),
            ],
        },
        "rule": ("one Kani harness = one solver query over ALL states of the bounded structure (symbolic row contents, "
                 "timestamps, offsets, constraint constants; concrete sizes) for one real kernel of the table store; "
                 "non-trivial iff every `witness:` cover is SATISFIED"),
        "assumptions": [
            "kernel level: each reachable index / scan kernel is exact for every state within bounds; operation SEQUENCES on a whole table, hash-table point lookups with symbolic keys, serial/parallel insert, delete, rehash/compaction, Index::refresh and clone are outside the claim",
            "DisplacedTable: <= 3 displaced rows with non-decreasing timestamps, forest of 4 ids, empty hash lookup table except in the clear harness",
            "a fast path returning None (fall back to the filtered scan) is always accepted; a wrong range is not",
            "CBMC/Kani semantics of Rust MIR; unwinding assertions enabled",
        ],
    },
    "C01": {
        "level": "model_checking",
        "quick": {
            "kani": [
                G("c01-cr", "core-relations", ["c01_"], jobs=6, ht=1200, wall=3000),
                G("c01-br", "egglog-bridge", ["c01_bridge_"], jobs=4, ht=1200, wall=3000),
            ],
        },
        "thorough": {
            "kani": [
                G("c01-cr", "core-relations", ["c01_", "c01t_"], jobs=8, ht=3600, wall=10800),
                G("c01-br", "egglog-bridge", ["c01_bridge_"], jobs=4, ht=3600, wall=10800),
            ],
        },
        "rule": ("one Kani harness = one solver query over all forests of 4 ids and all contents of one row, for one "
                 "arm of the real canonicaliser / one merge kernel; non-trivial iff every `witness:` cover is SATISFIED"),
        "assumptions": [
            "kernel level only: the union-find (C17), the UnionId merge kernel and the canonicaliser arms are exact; EGraph::rebuild's repeat-until-no-change loop, congruence through key collisions inside SortedWritesTable and matching modulo equality are NOT covered",
            "forest of 4 ids, one row of <= 5 columns",
            "CBMC/Kani semantics of Rust MIR; unwinding assertions enabled",
        ],
    },
    "C02": {
        "level": "translation_validation",
        "quick": {"kani": [], "e2": {"args": [], "wall_cap": 3000}},
        "thorough": {"kani": [], "e2": {"args": [], "wall_cap": 14000}},
        "rule": ("one 'program' = one distinct (cached plan, semi-naive variant set) emitted by the REAL lowering + planner + "
                 "variant construction for an enumerated rule-body shape x size profile x {:no-decomp on/off}; for each, two z3 "
                 "queries over ALL databases within the bounds: no spurious match, no lost new match; non-trivial iff z3 also "
                 "finds a database with a new match (assumptions satisfiable)"),
        "assumptions": [],
    },
    "C03": {
        "level": "translation_validation",
        "quick": {"kani": [G("c03-cr", "core-relations", ["c16_disp_fast_subset_", "c16_disp_timestamp_bounds", "c03_"], jobs=8, ht=1200, wall=3000)],
                  "e2": {"args": [], "wall_cap": 3000}},
        "thorough": {"kani": [G("c03-cr", "core-relations", ["c16_disp_fast_subset_", "c16_disp_timestamp_bounds", "c03_", "c03t_"], jobs=8, ht=3600, wall=10800)],
                     "e2": {"args": [], "wall_cap": 14000}},
        "rule": ("one 'program' = one distinct (cached plan, semi-naive variant set) dumped from the real engine while it runs a "
                 "generated multi-ruleset history (interleaved runs of two rulesets, writes at top level and by rules between "
                 "them, seminaive and :naive rules); per program three z3 queries: the variant set's timestamp constraints cover "
                 "every new match; the plans emit no spurious match; the plans lose no new match -- over ALL databases / "
                 "timestamps within the bounds. Kani harnesses decide that `ts >= t` / `ts < t` select exactly the right row "
                 "range. Non-trivial iff a database with a new match exists."),
        "assumptions": [
            "E1 part: DisplacedTable::{timestamp_bounds, fast_subset} (and the SortedWritesTable timestamp index where listed) are exact for "
            "every state within the bounds (<= 3 rows / <= 3 timestamp runs)",
            "trace facts checked on every concrete history and reported separately (not solver obligations): each rule's "
            "last_run_at equals the next_ts of its own previous run; next_ts strictly increases",
            "NOT covered: that rebuilt / refreshed / container-dirtied rows are re-inserted with a fresh timestamp (table and container "
            "code outside both engines); timestamp counter overflow",
        ],
    },
    "C05": {
        "level": "model_checking",
        "quick": {"kani": [G("c05-br", "egglog-bridge", ["c05_bridge_", "c01_bridge_unionid"], jobs=6, ht=1200, wall=3000)]},
        "thorough": {"kani": [G("c05-br", "egglog-bridge", ["c05_bridge_", "c05t_", "c01_bridge_unionid"], jobs=6, ht=3600, wall=10800)]},
        "rule": ("one Kani harness = one solver query over all operand values (cur, new, ts: arbitrary u32) and all results of nested "
                 "calls (arbitrary Option<u32>) for one arm / nesting shape of the real merge-expression interpreter "
                 "ResolvedMergeFn::run; non-trivial iff every `witness:` cover is SATISFIED"),
        "assumptions": [
            "kernel level, leaf arms only: the interpreter of compiled merge expressions is exact for Old, New, Const and AssertEq "
            "(= :no-merge: the panic function runs iff the two values differ, the old value is kept) and UnionId (under C01); the Primitive and "
            "Function arms are NOT decided (every harness that recurses into an argument vector failed to finish under CBMC); THAT the merge is applied on every collision (the four collision "
            "paths of SortedWritesTable, MergeFn::to_callback, order / batching / thread independence of the fold) is NOT covered",
            "ExecutionState::{stage_insert, call_external_func} and TableAction::lookup_or_insert are replaced by recorders returning "
            "arbitrary values (the real ones reach ArcSwap / hash tables)",
            "CBMC/Kani semantics of Rust MIR; unwinding assertions enabled",
        ],
    },
    "C18": {
        "level": "model_checking",
        "quick": {"kani": [G("c18-main", ".", ["c18_sched_"], jobs=6, ht=1200, wall=3000)]},
        "thorough": {"kani": [G("c18-main", ".", ["c18_sched_", "c18t_sched_"], jobs=6, ht=3600, wall=10800)]},
        "rule": ("one Kani harness = one solver query over all match values (pairwise distinct, arbitrary u32) and all chosen indices "
                 "(arbitrary, possibly repeated) for a fixed number of choose() calls on the real scheduler::Matches; non-trivial iff "
                 "every `witness:` cover is SATISFIED"),
        "assumptions": [
            "kernel level: only the residual-match bookkeeping (Matches::{new, choose, choose_all, instantiate}) is decided: a chosen match is "
            "applied and not offered again, an unchosen one stays exactly once; 4 matches, <= 4 choose calls, variable-free tuple layout "
            "(width 1)",
            "NOT covered: that every satisfying substitution is offered (the scheduler's query rule; partly C02's plan validation), matches "
            "interpreted modulo later equalities, restoration on error, can_stop",
            "TableAction::insert and BaseValues::get are replaced by recorders",
            "CBMC/Kani semantics of Rust MIR; unwinding assertions enabled",
        ],
    },
    "C13": {
        "level": "translation_validation",
        "quick": {"kani": [G("c13-br", "egglog-bridge", ["c13_bridge_"], jobs=4, ht=1200, wall=3000)],
                  "e2": {"args": [], "wall_cap": 3000}},
        "thorough": {"kani": [G("c13-br", "egglog-bridge", ["c13_bridge_", "c13t_bridge_"], jobs=4, ht=3600, wall=10800)],
                     "e2": {"args": [], "wall_cap": 14000}},
        "rule": ("one 'program' = one distinct plan set dumped from the real engine for a rule body, or for `(check body)`, while it "
                 "runs generated histories that insert rows, subsume some of them (at top level and from rule actions) and insert "
                 "subsumed tuples again; z3 decides over ALL databases with arbitrary subsume flags that a rule plan can never match a "
                 "subsumed row and loses no match on non-subsumed rows, and that a check plan matches subsumed rows as well. Kani "
                 "decides the subsume-flag algebra and the column arithmetic. Non-trivial iff a database with a match exists."),
        "assumptions": [
            "E1 part: combine_subsumed is a join with SUBSUMED absorbing (merging a subsumed row with a congruent one, in either order, "
            "stays subsumed); SchemaMath puts timestamp and subsume flag in the columns the plans constrain (func_cols 1,2,3,5)",
            "every generated history is also executed concretely: the real Out table and the real outcome of (check body) are compared "
            "with the body's meaning under the subsume flags the history implies (re-inserted subsumed tuples stay subsumed)",
            "NOT covered: survival of the flag through rebuild re-insertion of CONGRUENT rows, rehash, parallel insert, push/pop; "
            "extraction skipping subsumed rows; delete",
        ],
    },
}
