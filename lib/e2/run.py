"""E2 runner: build the real egglog binary with the dump hook, run generated programs through it,
validate every dumped plan with z3 (lib/e2/model.py), cross-check the model against the real executor
on concrete small databases, replay solver witnesses through the real binary.

Runs under python3-vt (needs z3).  Invoked by lib/e2.py as a subprocess; writes a JSON result file.
"""
import hashlib
import itertools
import json
import os
import random
import re
import subprocess
import sys
import time
import zlib

HERE = os.path.dirname(os.path.abspath(__file__))
sys.path.insert(0, HERE)

import z3  # noqa: E402

import gen  # noqa: E402
import model  # noqa: E402

REPO = os.environ.get("EGGLOG_REPO", "/repo")
VERIF = os.path.dirname(os.path.dirname(HERE))
D = 4          # value domain of the symbolic database
R = 3          # rows per table in the symbolic database


def scratch_root():
    d = os.environ.get("VERIF_SCRATCH", "/var/tmp/egglog-verif-scratch")
    os.makedirs(d, exist_ok=True)
    return d


def build_binary(log):
    """cargo build of /repo's working tree with --cfg egglog_verif, own target dir (kept between runs;
    cargo rebuilds whatever changed in /repo)."""
    tdir = os.path.join(scratch_root(), "e2-target")
    env = dict(os.environ)
    env["EGGLOG_VERIF_DIR"] = VERIF
    env["RUSTFLAGS"] = "--cfg egglog_verif"
    env["CARGO_NET_OFFLINE"] = "true"
    env.pop("RUSTUP_TOOLCHAIN", None)
    t0 = time.time()
    p = subprocess.run(["cargo", "build", "--offline", "--bin", "egglog", "--target-dir", tdir],
                       cwd=REPO, env=env, capture_output=True, text=True)
    log("cargo build (cfg egglog_verif): rc=%d %.0fs" % (p.returncode, time.time() - t0))
    if p.returncode != 0:
        raise RuntimeError("build failed:\n" + p.stderr[-4000:])
    return os.path.join(tdir, "debug", "egglog")


def run_program(binary, text, workdir, tag, extra_args=()):
    os.makedirs(workdir, exist_ok=True)
    src = os.path.join(workdir, tag + ".egg")
    dump = os.path.join(workdir, tag + ".dump.jsonl")
    with open(src, "w") as f:
        f.write(text)
    if os.path.exists(dump):
        os.remove(dump)
    env = dict(os.environ)
    env["EGGLOG_VERIF_DUMP"] = dump
    env["RUST_LOG"] = "error"
    p = subprocess.run([binary] + list(extra_args) + [src], env=env, capture_output=True, text=True, timeout=600)
    events = []
    if os.path.exists(dump):
        with open(dump) as f:
            for line in f:
                line = line.strip()
                if line:
                    events.append(json.loads(line))
        os.remove(dump)
    return p.returncode, p.stdout, p.stderr, events


def parse_out(stdout):
    rows = set()
    for m in re.finditer(r"\(Out((?:\s+-?\d+)*)\)\s*->", stdout):
        rows.add(tuple(int(x) for x in m.group(1).split()))
    return rows


# ------------------------------------------------------------------------------------------------
# concrete side: reconstruct the database from the dump; nested-loop meaning of the body


def reconstruct_db(events, upto_event_idx, names):
    """table id -> {key tuple: (value|None, ts)} from the insert instructions of action-only rules
    executed before event `upto_event_idx` (no unions / merges in generated programs)."""
    db = {}
    for ev in events[:upto_event_idx]:
        if ev.get("ev") != "run":
            continue
        for pr in ev["ruleset"]["plans"]:
            if pr["plan"]["atoms"]:
                continue
            for ins in pr["instrs"] or []:
                if ins["op"] == "LookupOrInsertDefault":
                    tid = ins["table"]
                    key = tuple(a["const"] for a in ins["args"])
                    db.setdefault(tid, {}).setdefault(key, (None, ev["next_ts"], 0))
                elif ins["op"] == "Insert":
                    tid = ins["table"]
                    fc = names[tid]["func_cols"]
                    vals = ins["vals"]
                    key = tuple(a["const"] for a in vals[:fc - 1])
                    val = vals[fc - 1]["const"]
                    old = db.setdefault(tid, {}).get(key)
                    if old is None or val < old[0]:
                        db[tid][key] = (val, ev["next_ts"], 0)
    return db


def eval_body(atoms, tid_of, db, small_only=True, new_since=None):
    """nested-loop evaluation -> set of substitutions (as tuples over sorted var names)"""
    vs = gen.body_vars(atoms)
    res = set()

    def rec(i, env, any_new):
        if i == len(atoms):
            if new_since is None or any_new:
                res.add(tuple(env[v] for v in vs))
            return
        a = atoms[i]
        for key, (val, ts, sub) in db.get(tid_of[a.name], {}).items():
            if sub:
                continue
            if small_only and any(k >= gen.BIG for k in key):
                continue
            e2 = dict(env)
            ok = True
            ents = list(zip(a.args, key))
            if a.is_func:
                ents.append((a.ret, val))
            for e, x in ents:
                if e[0] == "c":
                    if e[1] != x:
                        ok = False
                        break
                else:
                    if e[1] in e2:
                        if e2[e[1]] != x:
                            ok = False
                            break
                    else:
                        e2[e[1]] = x
            if ok:
                rec(i + 1, e2, any_new or (new_since is not None and ts >= new_since))
    rec(0, {}, False)
    return res


# ------------------------------------------------------------------------------------------------
# symbolic side


def norm_plan_key(rule_rec, variants):
    """structural identity of (cached plan, variant requests), with timestamps abstracted"""
    def scrub(o):
        if isinstance(o, dict):
            return {k: scrub(v) for k, v in sorted(o.items()) if k not in ("subset_size", "desc", "rule", "action")}
        if isinstance(o, list):
            return [scrub(x) for x in o]
        return o
    mid = rule_rec["mid_ts"]
    vs = []
    for v in variants:
        ex = json.dumps(scrub(v["extra"]))
        vs.append(ex.replace('"val": %d' % mid, '"val": "MID"') if mid else ex)
    return hashlib.sha256(json.dumps([scrub(rule_rec["cached"]), vs, mid == 0, rule_rec["seminaive"],
                                      rule_rec["sole_focus"]]).encode()).hexdigest()[:16]


def variant_plan(cached, extra):
    """The plan `add_rule_from_cached_plan` builds: extra constraints pushed as headers, then the cached headers."""
    p = json.loads(json.dumps(cached["plan"]))
    hdr = [{"atom": e["atom"], "constraints": [e["c"]]} for e in extra]
    p["header"] = hdr + [{"atom": h["atom"], "constraints": h["constraints"]} for h in cached["plan"]["header"]]
    return {"plan": p, "instrs": cached["instrs"], "used_vars": cached["used_vars"]}


def strip_sizes(o):
    if isinstance(o, dict):
        return {k: strip_sizes(v) for k, v in o.items() if k not in ("subset_size", "action")}
    if isinstance(o, list):
        return [strip_sizes(x) for x in o]
    return o


class Validator:
    def __init__(self, atoms, funcs_ev, include_subsumed=False):
        self.atoms = atoms
        self.names = {f["table"]: f for f in funcs_ev["funcs"]}
        self.tid_of = {f["name"]: f["table"] for f in funcs_ev["funcs"]}
        self.out_tid = self.tid_of["Out"]
        self.vs = gen.body_vars(atoms)
        self.include_subsumed = include_subsumed
        self.solver_s = 0.0
        self.queries = 0

    def tables(self):
        ts = {}
        for a in self.atoms:
            tid = self.tid_of[a.name]
            if tid not in ts:
                f = self.names[tid]
                ts[tid] = model.Table(tid, f["func_cols"], f["can_subsume"], R, name=f["name"])
        return ts

    def flat_source(self):
        fl = []
        for a in self.atoms:
            fl.append({"table": self.tid_of[a.name], "args": a.args, "ret": a.ret})
        return fl

    def check(self, s, timeout_ms=120000):
        s.set("timeout", timeout_ms)
        t0 = time.time()
        r = s.check()
        self.solver_s += time.time() - t0
        self.queries += 1
        return r

    def validate_run(self, rule_rec, variants, kept_plans):
        """-> dict(verdicts..., witness=None|{...})"""
        tables = self.tables()
        mid = rule_rec["mid_ts"]
        next_ts = rule_rec["next_ts"]
        nts = z3.IntVal(next_ts)
        wf = []
        for t in tables.values():
            wf += t.wellformed(D, nts)
        src = model.source_tuples(self.flat_source(), self.vs, tables, self.include_subsumed)
        tup = [z3.Int("tup_%s" % v) for v in self.vs]
        in_all = z3.Or([z3.And(c, *[a == b for a, b in zip(t, tup)]) for c, t, _, _ in src])
        if rule_rec["seminaive"] and rule_rec["sole_focus"] is None:
            in_new = z3.Or([z3.And(c, z3.Or([x >= mid for x in tss]), *[a == b for a, b in zip(t, tup)])
                            for c, t, tss, _ in src])
        elif not rule_rec["seminaive"]:
            in_new = in_all
        else:
            raise model.ModelError("sole_focus rules are not generated by E2")
        # hook consistency: what the real add_rule_from_cached_plan built for a kept variant must be what
        # variant_plan() reconstructs for the dropped ones (headers = extra ++ cached headers)
        vplans = []
        for v in variants:
            vp = variant_plan(rule_rec["cached"], v["extra"])
            if v["kept"] is not None:
                real = kept_plans[v["kept"]]
                if strip_sizes(real["plan"]) != strip_sizes(vp["plan"]) or real["instrs"] != vp["instrs"]:
                    raise model.ModelError("kept variant's plan differs from cached plan + extra constraints "
                                           "(the model of add_rule_from_cached_plan is out of date)")
            vplans.append(vp)

        def memb(alts, tup_):
            return z3.Or([z3.And(c, *[a == b for a, b in zip(t, tup_)]) for c, t in alts]) if alts else z3.BoolVal(False)
        # positive occurrence of "the plan emits tup": one alternative per variant, row choices existential
        any_plan_pos = z3.Or([memb(model.plan_tuples(vp, tables, self.out_tid, nts, "select"), tup) for vp in vplans]) \
            if vplans else z3.BoolVal(False)
        # negative occurrence, instantiated: for a source match on rows c, "no variant emits its tuple even when
        # its row choices are taken from the very rows of c".  not-exists implies this, so UNSAT of
        # (new match on c) and (this) proves that no new match is lost; a SAT answer is only a candidate.
        lost_inst = []
        for c, t, tss, cands in src:
            is_new = z3.Or([x >= mid for x in tss]) if (rule_rec["seminaive"] and rule_rec["sole_focus"] is None) else z3.BoolVal(True)
            emitted = [memb(model.plan_tuples(vp, tables, self.out_tid, nts, "inst", cands), t) for vp in vplans]
            lost_inst.append(z3.And(c, is_new, z3.Not(z3.Or(emitted)) if emitted else z3.BoolVal(True),
                                    *[a == b for a, b in zip(t, tup)]))
        lost_inst = z3.Or(lost_inst)
        res = {"mid": mid, "next_ts": next_ts, "n_variants": len(variants),
               "n_kept": sum(1 for v in variants if v["kept"] is not None)}
        # vacuity: the database constraints admit a match at all, and a new one
        s = z3.Solver()
        s.add(wf)
        s.add(in_new)
        res["witness_new_match_possible"] = str(self.check(s))
        # (1) no spurious match
        s = z3.Solver()
        s.add(wf)
        s.add(any_plan_pos, z3.Not(in_all))
        r1 = self.check(s)
        res["spurious"] = str(r1)
        if r1 == z3.sat:
            res["witness"] = self.extract(s.model(), tables, tup, "spurious")
            return res
        # (2) no lost (new) match
        s = z3.Solver()
        s.add(wf)
        s.add(lost_inst)
        r2 = self.check(s)
        res["lost"] = str(r2)
        if r2 == z3.sat:
            # candidate only: confirm with the exact (fully expanded) negation when it is small enough,
            # otherwise the replay through the real binary decides
            m = s.model()
            res["witness"] = self.extract(m, tables, tup, "lost")
            res["witness"]["candidate"] = True
            try:
                if rule_rec["cached"]["plan"]["kind"] == "Single" and len(rule_rec["cached"]["plan"]["atoms"]) <= 4:
                    exact = z3.Or([memb(model.plan_tuples(vp, tables, self.out_tid, nts, "dnf"), tup) for vp in vplans]) \
                        if vplans else z3.BoolVal(False)
                    s2 = z3.Solver()
                    s2.add(wf)
                    s2.add(in_new, z3.Not(exact))
                    r3 = self.check(s2)
                    res["lost_exact"] = str(r3)
                    if r3 == z3.sat:
                        res["witness"] = self.extract(s2.model(), tables, tup, "lost")
                        res["witness"]["candidate"] = False
                    elif r3 == z3.unsat:
                        res["lost"] = "unsat"
                        del res["witness"]
            except model.ModelError:
                pass
            return res
        # diagnostics (not obligations): an old match redone / a match produced by two variants
        if mid > 0 and rule_rec["seminaive"]:
            s = z3.Solver()
            s.add(wf)
            s.add(any_plan_pos, z3.Not(in_new))
            res["diag_old_match_redone"] = str(self.check(s, 30000))
        return res

    def extract(self, m, tables, tup, kind):
        db = {}
        for tid, t in tables.items():
            rows = []
            for cols, pres in t.rows:
                if z3.is_true(m.eval(pres, model_completion=True)):
                    rows.append([m.eval(c, model_completion=True).as_long() for c in cols])
            db[t.name] = {"func_cols": t.func_cols, "subsume": t.subsume, "rows": rows}
        return {"kind": kind, "tuple": [m.eval(x, model_completion=True).as_long() for x in tup], "db": db}

    # -- model pinned to a concrete database, compared with the real executor's output -------------
    def pinned_outputs(self, rule_rec, variants, cdb):
        tables = self.tables()
        nts = z3.IntVal(rule_rec["next_ts"])
        pin = []
        for tid, t in tables.items():
            small = [(k, v) for k, v in sorted(cdb.get(tid, {}).items()) if all(x < gen.BIG for x in k)]
            if len(small) > t.R:
                raise model.ModelError("more than R small rows in table %s" % t.name)
            for i, (cols, pres) in enumerate(t.rows):
                if i < len(small):
                    key, (val, ts, sub) = small[i]
                    pin.append(pres)
                    for c, x in enumerate(key):
                        pin.append(cols[c] == x)
                    if val is not None:
                        pin.append(cols[t.func_cols - 1] == val)
                    pin.append(cols[t.ts_col] == ts)
                    if t.subsume:
                        pin.append(cols[t.sub_col] == sub)
                else:
                    pin.append(z3.Not(pres))
        tup = [z3.Int("tup_%s" % v) for v in self.vs]
        alts = []
        for v in variants:
            vp = variant_plan(rule_rec["cached"], v["extra"])
            alts += model.plan_tuples(vp, tables, self.out_tid, nts, "select")
        in_plan = z3.Or([z3.And(c, *[a == b for a, b in zip(t, tup)]) for c, t in alts]) if alts else z3.BoolVal(False)
        s = z3.Solver()
        s.add(pin)
        s.add(in_plan)
        out = set()
        while True:
            r = self.check(s, 60000)
            if r != z3.sat:
                if r != z3.unsat:
                    raise model.ModelError("solver gave %s while enumerating the pinned model" % r)
                break
            m = s.model()
            t = tuple(m.eval(x, model_completion=True).as_long() for x in tup)
            out.add(t)
            s.add(z3.Or([x != y for x, y in zip(tup, t)]))
            if len(out) > 500:
                raise model.ModelError("pinned model enumerates too many tuples")
        return out


# ------------------------------------------------------------------------------------------------


def small_rows(atoms, rnd, max_rows=R):
    """a small database over [0,D) built around one or two random substitutions of the body (so that
    matches exist), padded with noise rows: name -> list of (key, val)"""
    sig = gen.signature(atoms)
    vs = gen.body_vars(atoms)
    consts = [e[1] for a in atoms for e in a.args + ([a.ret] if a.ret else []) if e[0] == "c"]
    db = {name: {} for name in sig}
    for _ in range(rnd.randint(1, 2)):
        theta = {v: rnd.randrange(D) for v in vs}
        for a in atoms:
            if rnd.random() < 0.15:
                continue
            key = tuple(e[1] if e[0] == "c" else theta[e[1]] for e in a.args)
            val = None
            if a.is_func:
                val = a.ret[1] if a.ret[0] == "c" else theta[a.ret[1]]
            if len(db[a.name]) < max_rows or key in db[a.name]:
                db[a.name].setdefault(key, val if val is not None else 0)
    for name, ar in sorted(sig.items()):
        want = rnd.randint(len(db[name]), max_rows)
        for _ in range(10):
            if len(db[name]) >= want:
                break
            key = tuple(rnd.choice(consts) if consts and rnd.random() < 0.3 else rnd.randrange(D) for _ in range(ar))
            db[name].setdefault(key, rnd.randrange(D))
    return {name: sorted(rows.items()) for name, rows in db.items()}


def split_phases(sdb, rnd):
    """-> (phases for render_program, rows by class) ; classes: 'old' (top level, before run 1),
    'mid' (written by a rule during run 1: timestamp == run 2's last_run_at), 'new' (top level, after run 1)"""
    cls = {"old": [], "mid": [], "new": []}
    for name, rows in sorted(sdb.items()):
        for key, val in rows:
            cls[rnd.choice(["old", "mid", "new"])].append((name, key, val))

    def txt(rows):
        return [gen.fact_text(n, k, v, n[0].islower()) for n, k, v in rows]
    phases = [{"pre": txt(cls["old"]), "aux": txt(cls["mid"])}, {"pre": txt(cls["new"]), "aux": []}]
    return phases, cls


def db_at_run(cls, run_no, tid_of, mid):
    """table id -> {key: (val, ts, sub)} as it stands when run `run_no` (0-based) starts; timestamps are
    synthetic but ordered like the real ones relative to `mid` (= last_run_at of run 1, i.e. run 0's next_ts)"""
    db = {}
    groups = [("old", 0)] if run_no == 0 else [("old", max(mid - 1, 0)), ("mid", mid), ("new", mid + 1)]
    for g, ts in groups:
        for name, key, val in cls[g]:
            db.setdefault(tid_of[name], {})[tuple(key)] = (val, ts, 0)
    return db


def main_rule_records(events, out_tid):
    """-> list of (event index, funcs event, rule_rec, variants, kept_plans) for runs of the Out rule"""
    res = []
    last_funcs = None
    for i, ev in enumerate(events):
        if ev.get("ev") == "funcs":
            last_funcs = ev
            continue
        if ev.get("ev") != "run":
            continue
        for rr in ev["rules"]:
            if not rr["atoms"]:
                continue
            writes_out = any(ins.get("table") == out_tid for ins in rr["cached"]["instrs"])
            if not writes_out:
                continue
            lo, hi = rr["variants"]
            variants = ev["ruleset"]["variants"][lo:hi]
            res.append((i, last_funcs, rr, variants, ev["ruleset"]["plans"]))
    return res


# ------------------------------------------------------------------------------------------------
# witness replay through the real binary


def witness_program(atoms, no_decomp, profile, wit, mid):
    """rows with ts < mid: top level before run 1; ts == mid: written by a rule during run 1;
    ts > mid: top level after run 1.  Subsumed rows: inserted, then `(subsume ...)` in the same class."""
    cls = {"old": [], "mid": [], "new": []}
    for name, t in sorted(wit["db"].items()):
        is_func = name[0].islower()
        fc = t["func_cols"]
        for row in t["rows"]:
            key, val, ts = row[:fc - 1], row[fc - 1], row[fc]
            sub = row[fc + 1] if t["subsume"] else 0
            cmds = [gen.fact_text(name, key, val, is_func)]
            if sub:
                if is_func:
                    return None
                cmds.append("(subsume (%s %s))" % (name, " ".join(str(k) for k in key)))
            g = "old" if (mid == 0 or ts < mid) else ("mid" if ts == mid else "new")
            cls[g].extend(cmds)
    if mid > 0:
        phases = [{"pre": cls["old"], "aux": cls["mid"]}, {"pre": cls["new"], "aux": []}]
    else:
        phases = [{"pre": cls["old"], "aux": []}]
    return gen.render_program(atoms, no_decomp, profile, phases)


def expected_out_after(atoms, tid_of, events, names, run_event_idxs):
    """union over the runs of the body's meaning on the database as it stood at each run (small rows only)"""
    exp = set()
    for i in run_event_idxs:
        cdb = reconstruct_db(events, i, names)
        exp |= eval_body(atoms, tid_of, cdb)
    return exp


def replay_witness(binary, workdir, tag, atoms, no_decomp, profile, wit, rule_rec, plan_key):
    """-> (reproduced: bool|None, text of the replay artefact)"""
    prog = witness_program(atoms, no_decomp, profile, wit, rule_rec["mid_ts"])
    if prog is None:
        return None, "witness subsumes a row of a merge function; not replayable from the surface language", "", set(), set()
    rc, out, err, events = run_program(binary, prog, workdir, tag)
    note = "program:\n" + prog + "\nexit=%d\nstderr tail: %s\n" % (rc, err[-600:])
    if rc != 0:
        return None, note + "replay program failed to run\n", prog, set(), set()
    funcs = [e for e in events if e["ev"] == "funcs"][-1]
    names = {f["table"]: f for f in funcs["funcs"]}
    tid_of = {f["name"]: f["table"] for f in funcs["funcs"]}
    recs = main_rule_records(events, tid_of["Out"])
    keys = [norm_plan_key(rr, variants) for (_, _, rr, variants, _) in recs]
    real = {t for t in parse_out(out) if all(x < gen.BIG for x in t)}
    # subsume commands are not reconstructed from the dump: evaluate expectation from the witness itself
    exp = set()
    for phase_mid in ([None] if rule_rec["mid_ts"] == 0 else [rule_rec["mid_ts"], None]):
        cdb = {}
        for name, t in wit["db"].items():
            fc = t["func_cols"]
            rows = {}
            for row in t["rows"]:
                ts = row[fc]
                if phase_mid is not None and ts >= phase_mid:
                    continue  # database as it stood at the first run
                rows[tuple(row[:fc - 1])] = (row[fc - 1], ts, row[fc + 1] if t["subsume"] else 0)
            cdb[tid_of[name]] = rows
        exp |= eval_body(atoms, tid_of, cdb)
    note += "real Out (small range): %s\nexpected (nested-loop meaning of the body at each run): %s\n" % (sorted(real), sorted(exp))
    note += "plan keys in replay: %s ; plan under test: %s\n" % (keys, plan_key)
    if real != exp:
        return True, note + "REPRODUCED: the real engine's Out differs from the body's meaning\n", prog, exp, real
    return False, note + "not reproduced: the real engine's Out equals the body's meaning on the witness database\n", prog, exp, real


# ------------------------------------------------------------------------------------------------


def write_artefact(path, prop, what, program, expected, real, extra=""):
    with open(path, "w") as f:
        f.write("kind=e2\nproperty=%s\nwhat=%s\nexpected_out=%s\nreal_out_when_found=%s\n---program---\n%s---end---\n%s\n"
                % (prop, what, json.dumps(sorted(expected)), json.dumps(sorted(real)), program, extra))


def replay_artefact(binary, path, workdir):
    """re-run the recorded program through the current build: -> (reproduced, note)"""
    body = open(path).read()
    m = re.search(r"---program---\n(.*?)---end---", body, re.S)
    e = re.search(r"^expected_out=(.*)$", body, re.M)
    if not m or not e:
        return None, "artefact has no program / expected_out"
    exp = {tuple(t) for t in json.loads(e.group(1))}
    rc, out, err, _ = run_program(binary, m.group(1), workdir, "replay")
    if rc != 0:
        return None, "program exited %d: %s" % (rc, err[-400:])
    real = {t for t in parse_out(out) if all(x < gen.BIG for x in t)}
    note = "real Out (small range): %s\nexpected: %s\n" % (sorted(real), sorted(exp))
    return (real != exp), note


def work_item(args):
    """One (shape, no_decomp, profile, seed) program: run, validate new plans, sanity-check. -> dict"""
    (binary, workdir, sid, body, no_decomp, profile, seed, seen_keys, mutate) = args
    res = {"shape": sid, "body": body, "no_decomp": no_decomp, "profile": profile[0], "seed": seed,
           "plans": [], "errors": [], "violations": [], "sanity": [], "solver_s": 0.0, "queries": 0}
    try:
        atoms = gen.parse_body(body)
        rnd = random.Random(zlib.crc32(("%s/%s/%s/%d" % (sid, no_decomp, profile[0], seed)).encode()))
        sdb = small_rows(atoms, rnd)
        phases, cls = split_phases(sdb, rnd)
        text = gen.render_program(atoms, no_decomp, profile, phases, seed=seed)
        tag = "%s_%s_%s_%d" % (sid, "nd" if no_decomp else "d", profile[0], seed)
        rc, out, err, events = run_program(binary, text, workdir, tag)
        if rc != 0:
            res["errors"].append("egglog exited %d on generated program %s: %s" % (rc, tag, err[-400:]))
            return res
        funcs = [e for e in events if e["ev"] == "funcs"][-1]
        V = Validator(atoms, funcs)
        recs = main_rule_records(events, V.out_tid)
        if len(recs) != 2:
            res["errors"].append("%s: expected 2 runs of the rule in the dump, got %d" % (tag, len(recs)))
            return res
        real = {t for t in parse_out(out) if all(x < gen.BIG for x in t)}
        exp = set()
        for k in range(2):
            exp |= eval_body(atoms, V.tid_of, db_at_run(cls, k, V.tid_of, recs[1][2]["mid_ts"]))
        if real != exp:
            art = os.path.join(workdir, tag + ".concrete.txt")
            write_artefact(art, "C02", "concrete cross-check: real Out differs from the nested-loop meaning of the body",
                           text, exp, real, "shape=%s body=%s" % (sid, body))
            res["violations"].append({"key": "concrete:" + tag, "what": "real Out differs from the body's meaning on a concrete database "
                                      "(found while cross-checking the model, no solver involved)", "replay": art,
                                      "reproduced": True, "program": text})
        res["sanity"].append({"tag": tag, "real_out": len(real), "expected": len(exp), "agree": real == exp})
        for run_no, (i, fe, rr, variants, plans) in enumerate(recs):
            if mutate:
                rr = mutate(rr)
            key = norm_plan_key(rr, variants)
            if run_no == 1 and rr["mid_ts"] != recs[0][2]["next_ts"]:
                res["errors"].append("%s: run 2's last_run_at (%d) is not run 1's next_ts (%d)" % (tag, rr["mid_ts"], recs[0][2]["next_ts"]))
            if rr["next_ts"] <= rr["mid_ts"]:
                res["errors"].append("%s: timestamps do not advance (mid %d, next %d)" % (tag, rr["mid_ts"], rr["next_ts"]))
            cdb = db_at_run(cls, run_no, V.tid_of, rr["mid_ts"])
            # model vs real executor on this concrete database (every program, also for already-seen plans)
            try:
                po = V.pinned_outputs(rr, variants, cdb)
                want = eval_body(atoms, V.tid_of, cdb, new_since=rr["mid_ts"])
                want_all = eval_body(atoms, V.tid_of, cdb)
                ok = want <= po <= want_all
                res["sanity"].append({"tag": tag, "run_mid": rr["mid_ts"], "model_out": len(po), "new": len(want),
                                      "all": len(want_all), "agree": ok})
                if not ok and real == exp and not mutate:
                    res["errors"].append("%s: the plan model disagrees with the body's meaning on a concrete database where the "
                                         "real engine agrees with it (model defect): model=%s new=%s all=%s"
                                         % (tag, sorted(po), sorted(want), sorted(want_all)))
            except model.ModelError as e:
                res["errors"].append("%s: %s" % (tag, e))
                continue
            if key in seen_keys:
                continue
            seen_keys[key] = tag
            try:
                v = V.validate_run(rr, variants, plans)
            except model.ModelError as e:
                res["errors"].append("%s: plan outside the model: %s" % (tag, e))
                continue
            kind = rr["cached"]["plan"]["kind"]
            nblocks = len(rr["cached"]["plan"].get("blocks", []))
            prec = {"key": key, "tag": tag, "kind": kind, "blocks": nblocks, "mid0": rr["mid_ts"] == 0,
                    "n_atoms": len(rr["atoms"]), "verdict": {k: v[k] for k in v if k != "witness"}}
            res["plans"].append(prec)
            bad = [k for k in ("spurious", "lost") if v.get(k) not in ("unsat", None)]
            if v.get("witness_new_match_possible") != "sat":
                res["errors"].append("%s: vacuous: no database within the bounds has a new match (%s)" % (tag, v.get("witness_new_match_possible")))
            if "witness" in v:
                w = v["witness"]
                rep, note, prog, wexp, wreal = replay_witness(binary, workdir, tag + "_replay", atoms, no_decomp, profile, w, rr, key)
                art = os.path.join(workdir, "%s.%s.witness.txt" % (tag, key))
                write_artefact(art, "C02", "solver witness (%s match) for plan %s" % (w["kind"], key), prog, wexp, wreal,
                               "shape=%s body=%s no_decomp=%s profile=%s\nwitness=%s\n%s"
                               % (sid, body, no_decomp, profile[0], json.dumps(w), note))
                res["violations"].append({"key": "%s:%s:%s" % (w["kind"], sid, "nd" if no_decomp else "d"),
                                          "what": "%s match on plan %s (%s, %s, profile %s): tuple %s"
                                          % (w["kind"], key, sid, kind, profile[0], w["tuple"]),
                                          "replay": art, "reproduced": bool(rep), "replay_status": rep})
            elif bad:
                res["errors"].append("%s: solver returned %s" % (tag, {k: v.get(k) for k in bad}))
        res["solver_s"] = V.solver_s
        res["queries"] = V.queries
    except Exception as e:  # noqa
        import traceback
        res["errors"].append("driver exception in %s: %r\n%s" % (sid, e, traceback.format_exc()[-1500:]))
    return res


def shape_worker(args):
    (binary, workdir, sid, body, profiles, decomp_settings, seeds) = args
    seen = {}
    out = []
    for nd in decomp_settings:
        for prof in profiles:
            for seed in seeds:
                out.append(work_item((binary, workdir, sid, body, nd, prof, seed, seen, None)))
    return out


def main():
    import argparse
    import multiprocessing as mp
    ap = argparse.ArgumentParser()
    ap.add_argument("--prop", required=True)
    ap.add_argument("--tier", default="quick")
    ap.add_argument("--seed", type=int, default=0)
    ap.add_argument("--out", required=True)
    ap.add_argument("--workdir", required=True)
    ap.add_argument("--only", default=None)
    ap.add_argument("--replay", default=None)
    ap.add_argument("--jobs", type=int, default=int(os.environ.get("VERIF_E2_JOBS", "12")))
    a = ap.parse_args()
    t0 = time.time()

    def log(*x):
        print("[e2]", *x, flush=True)

    result = {"error": None, "violations": [], "obligations": 0, "discharged": 0, "queries": 0, "solver_seconds": 0.0,
              "programs": 0, "distinct_nontrivial": 0, "disagreements_checked": 0, "samples": [], "assumptions": [],
              "errors": []}
    try:
        binary = build_binary(log)
    except Exception as e:  # noqa
        result["error"] = "cannot build the instrumented egglog binary: %s" % e
        json.dump(result, open(a.out, "w"))
        return 2
    if a.replay:
        rep, note = replay_artefact(binary, a.replay, a.workdir)
        print(note)
        if rep:
            print("VIOLATION property=%s replay=%s" % (a.prop, a.replay))
            return 1
        print("did not reproduce" if rep is False else "replay could not be run")
        return 0 if rep is False else 2
    quick = a.tier == "quick"
    shapes = [(sid, body) for sid, body, tag in gen.SHAPES if (not quick) or tag == "q"]
    if a.only:
        shapes = [s for s in shapes if a.only in s[0]]
    profiles = gen.PROFILES_QUICK if quick else gen.PROFILES_THOROUGH
    seeds = [a.seed] if quick else [a.seed, a.seed + 1, a.seed + 2]
    os.makedirs(a.workdir, exist_ok=True)
    items = [(binary, a.workdir, sid, body, profiles, [False, True], seeds) for sid, body in shapes]
    rnd = random.Random(a.seed)
    rnd.shuffle(items)
    all_res = []
    with mp.Pool(a.jobs) as pool:
        for lst in pool.imap_unordered(shape_worker, items):
            all_res += lst
            r0 = lst[0]
            log("%s: %d programs, %d distinct plans, %d errors, %d violations" % (
                r0["shape"], len(lst), sum(len(r["plans"]) for r in lst), sum(len(r["errors"]) for r in lst),
                sum(len(r["violations"]) for r in lst)))
    matrix = {}
    kinds = {}
    plans = []
    for r in all_res:
        result["errors"] += r["errors"]
        result["violations"] += r["violations"]
        result["solver_seconds"] += r["solver_s"]
        result["queries"] += r["queries"]
        result["programs"] += 1
        cell = matrix.setdefault(r["shape"], {})
        cell[("nd/" if r["no_decomp"] else "d/") + r["profile"]] = [p["key"] for p in r["plans"]]
        for p in r["plans"]:
            plans.append(p)
            k = p["kind"] + ("/%d blocks" % p["blocks"] if p["kind"] == "Decomposed" else "")
            kinds[k] = kinds.get(k, 0) + 1
    n_sanity = sum(len(r["sanity"]) for r in all_res)
    n_sanity_ok = sum(1 for r in all_res for s_ in r["sanity"] if s_["agree"])
    for p in plans:
        result["obligations"] += 2
        v = p["verdict"]
        result["discharged"] += (1 if v.get("spurious") == "unsat" else 0) + (1 if v.get("lost") == "unsat" else 0)
    result["distinct_plans"] = len(plans)
    result["distinct_nontrivial"] = sum(1 for p in plans if p["verdict"].get("witness_new_match_possible") == "sat")
    result["plan_kinds"] = kinds
    result["shape_profile_matrix"] = matrix
    result["disagreements_checked"] = len(result["violations"])
    result["model_vs_real_executor_checks"] = {"run": n_sanity, "agree": n_sanity_ok}
    result["samples"] = [{"plan": p["key"], "from": p["tag"], "kind": p["kind"], "verdict": p["verdict"]}
                         for p in rnd.sample(plans, min(6, len(plans)))]
    result["bounds"] = {"rows_per_table": R, "value_domain": D, "max_atoms": 4, "max_arity": 3,
                        "shapes": len(shapes), "profiles": [p[0] for p in profiles], "seeds": seeds}
    result["model_sha256"] = hashlib.sha256(open(os.path.join(HERE, "model.py"), "rb").read()).hexdigest()[:16]
    result["solver"] = "z3 %s (python bindings), QF linear integer arithmetic" % z3.get_version_string()
    result["wall_s"] = round(time.time() - t0, 1)
    result["assumptions"] = [
        "translation validation: the planner's code runs concretely on the enumerated shapes x size profiles; what the solver "
        "quantifies over is the database each emitted plan is later run on (<= %d rows per table, values in [0,%d), "
        "arbitrary timestamps < next_ts, arbitrary subsume flags, keys unique per table)" % (R, D),
        "trusted: the stage semantics of lib/e2/model.py (sha %s), cross-checked against the real executor on %d concrete runs"
        % (result["model_sha256"], n_sanity),
        "header subsets are taken to be exactly the rows satisfying the header's constraints (decided separately by the "
        "C16 fast_subset kernels)",
        "the database is canonical at the start of the iteration (matching modulo equality = syntactic matching)",
        "relations over i64 and i64-valued merge functions only; eq-sort constructors, containers and primitive filters are outside",
        "executor internals (index choice, trie sharing, dynamic stage re-sorting, batching) are outside, except as exercised "
        "by the concrete cross-check runs",
    ]
    json.dump(result, open(a.out, "w"), indent=1)
    log("done: %d programs, %d distinct plans %s, %d/%d obligations discharged, %d violations, %d errors, %.0fs"
        % (result["programs"], len(plans), kinds, result["discharged"], result["obligations"],
           len(result["violations"]), len(result["errors"]), time.time() - t0))
    return 0


if __name__ == "__main__":
    sys.exit(main())
