"""E2 runner: build the real egglog binary with the dump hook, run generated programs through it,
validate every dumped plan with z3 (lib/e2/model.py), cross-check the model against the real executor
on concrete small databases, replay solver witnesses through the real binary.

Runs under python3-vt (needs z3).  Invoked by lib/e2.py as a subprocess; writes a JSON result file.
"""
import hashlib
import itertools
import json
import os
import random
import re
import subprocess
import sys
import time
import zlib

HERE = os.path.dirname(os.path.abspath(__file__))
sys.path.insert(0, HERE)

import z3  # noqa: E402

import gen  # noqa: E402
import model  # noqa: E402

REPO = os.environ.get("EGGLOG_REPO", "/repo")
VERIF = os.path.dirname(os.path.dirname(HERE))
D = 4          # value domain of the symbolic database
R = 3          # rows per table in the symbolic database


def scratch_root():
    d = os.environ.get("VERIF_SCRATCH", "/var/tmp/egglog-verif-scratch")
    os.makedirs(d, exist_ok=True)
    return d


def build_binary(log):
    """cargo build of /repo's working tree with --cfg egglog_verif, own target dir (kept between runs;
    cargo rebuilds whatever changed in /repo)."""
    tdir = os.path.join(scratch_root(), "e2-target")
    env = dict(os.environ)
    env["EGGLOG_VERIF_DIR"] = VERIF
    env["RUSTFLAGS"] = "--cfg egglog_verif"
    env["CARGO_NET_OFFLINE"] = "true"
    env.pop("RUSTUP_TOOLCHAIN", None)
    t0 = time.time()
    p = subprocess.run(["cargo", "build", "--offline", "--bin", "egglog", "--target-dir", tdir],
                       cwd=REPO, env=env, capture_output=True, text=True)
    log("cargo build (cfg egglog_verif): rc=%d %.0fs" % (p.returncode, time.time() - t0))
    if p.returncode != 0:
        raise RuntimeError("build failed:\n" + p.stderr[-4000:])
    return os.path.join(tdir, "debug", "egglog")


PAR_ENV = {"EGGLOG_PARALLEL_DB_LEVEL_OP_CUTOFF": "0", "EGGLOG_PARALLEL_INDEX_CONSTRUCTION_CUTOFF": "0",
           "EGGLOG_PARALLEL_REBUILD_CUTOFF": "0", "EGGLOG_PARALLEL_TABLE_OP_CUTOFF": "0",
           "EGGLOG_PARALLEL_INTRA_CONTAINER_CUTOFF": "0", "EGGLOG_PARALLEL_INTER_CONTAINER_CUTOFF": "0"}


def run_program(binary, text, workdir, tag, extra_args=(), extra_env=None):
    os.makedirs(workdir, exist_ok=True)
    src = os.path.join(workdir, tag + ".egg")
    dump = os.path.join(workdir, tag + ".dump.jsonl")
    with open(src, "w") as f:
        f.write(text)
    if os.path.exists(dump):
        os.remove(dump)
    env = dict(os.environ)
    env["EGGLOG_VERIF_DUMP"] = dump
    env["RUST_LOG"] = "error"
    env.update(extra_env or {})
    p = subprocess.run([binary] + list(extra_args) + [src], env=env, capture_output=True, text=True, timeout=600)
    events = []
    if os.path.exists(dump):
        with open(dump) as f:
            for line in f:
                line = line.strip()
                if line:
                    events.append(json.loads(line))
        os.remove(dump)
    return p.returncode, p.stdout, p.stderr, events


def printed_sizes(stdout):
    """the numbers printed by `(print-size ..)` commands, in program order"""
    return [int(l) for l in (x.strip() for x in stdout.splitlines()) if re.fullmatch(r"\d+", l)]


def _sexp(toks, i):
    if toks[i] == "(":
        i += 1
        items = []
        while toks[i] != ")":
            x, i = _sexp(toks, i)
            items.append(x)
        return items, i + 1
    t = toks[i]
    return (int(t) if re.fullmatch(r"-?\d+", t) else t), i + 1


def _to_val(x):
    if isinstance(x, list):
        return (x[0], tuple(_to_val(y) for y in x[1:]))
    return x


def parse_out(stdout, rel="Out", raw=False):
    """rows of `(print-function <rel>S)` (the small-range copy of rel; raw=True: of rel itself): lines
    `(<rel>S a1 .. an) -> ...`; arguments are integers or constructor terms"""
    if not raw:
        rel = rel + "S"
    rows = set()
    for line in stdout.splitlines():
        line = line.strip()
        if not line.startswith("(%s" % rel) or "->" not in line:
            continue
        lhs = line.split("->")[0].strip()
        toks = re.findall(r"[()]|[^\s()]+", lhs)
        try:
            x, _ = _sexp(toks, 0)
        except IndexError:
            continue
        if not isinstance(x, list) or x[0] != rel:
            continue
        if raw and len(line.split("->")[0].split()) == 0:
            continue
        rows.add(tuple(_to_val(y) for y in x[1:]))
    return rows


# ------------------------------------------------------------------------------------------------
# concrete side: reconstruct the database from the dump; nested-loop meaning of the body


def reconstruct_db(events, upto_event_idx, names):
    """table id -> {key tuple: (value|None, ts)} from the insert instructions of action-only rules
    executed before event `upto_event_idx` (no unions / merges in generated programs)."""
    db = {}
    for ev in events[:upto_event_idx]:
        if ev.get("ev") != "run":
            continue
        for pr in ev["ruleset"]["plans"]:
            if pr["plan"]["atoms"]:
                continue
            for ins in pr["instrs"] or []:
                if ins["op"] == "LookupOrInsertDefault":
                    tid = ins["table"]
                    key = tuple(a["const"] for a in ins["args"])
                    db.setdefault(tid, {}).setdefault(key, (None, ev["next_ts"], 0))
                elif ins["op"] == "Insert":
                    tid = ins["table"]
                    fc = names[tid]["func_cols"]
                    vals = ins["vals"]
                    key = tuple(a["const"] for a in vals[:fc - 1])
                    val = vals[fc - 1]["const"]
                    old = db.setdefault(tid, {}).get(key)
                    if old is None or val < old[0]:
                        db[tid][key] = (val, ev["next_ts"], 0)
    return db


class TooMany(Exception):
    pass


def eval_body(atoms, tid_of, db, small_only=True, new_since=None, head=None, include_subsumed=False, limit=None,
              small_head=False):
    """meaning of the body on a concrete database -> set of head tuples (default head: every variable,
    sorted by name).  small_only: ignore profile rows (sound only when every atom shares a variable with the
    head; callers pass False otherwise).  Index nested-loop join: rows of each atom are indexed on the
    positions already bound when the atom is reached."""
    vs = head if head is not None else gen.body_vars(atoms)
    hset = set(vs)
    res = set()
    prim_atoms = [a for a in atoms if a.kind == "prim"]
    atoms = [a for a in atoms if a.kind != "prim"]

    def apply_prims(env):
        for a in prim_atoms:
            x, y = [(e[1] if e[0] == "c" else env[e[1]]) for e in a.args]
            if a.name == "lt":
                if not x < y:
                    return None
            elif a.name == "ne":
                if x == y:
                    return None
            else:
                r = a.ret
                if r[0] == "c":
                    if r[1] != x + y:
                        return None
                elif r[1] in env:
                    if env[r[1]] != x + y:
                        return None
                else:
                    env = dict(env)
                    env[r[1]] = x + y
        return env
    # static binding order: which entries of atom i are bound (constant or earlier variable) on arrival
    bound_vars = set()
    plans = []
    for a in atoms:
        ents = list(a.args) + ([a.ret] if a.is_func else [])
        bpos, seen_here = [], {}
        for pos, e in enumerate(ents):
            if e[0] == "c" or e[1] in bound_vars:
                bpos.append(pos)
        plans.append((ents, bpos))
        for e in ents:
            if e[0] == "v":
                bound_vars.add(e[1])
    indexes = []
    for a, (ents, bpos) in zip(atoms, plans):
        idx = {}
        for key, (val, ts, sub) in db.get(tid_of[a.name], {}).items():
            if sub and not include_subsumed:
                continue
            if small_only and not all(gen.is_small(k) for k in key):
                continue
            row = tuple(key) + ((val,) if a.is_func else ())
            idx.setdefault(tuple(row[p] for p in bpos), []).append((row, ts))
        indexes.append(idx)

    def rec(i, env, any_new):
        if i == len(atoms):
            if new_since is None or any_new:
                env = apply_prims(env)
                if env is not None:
                    res.add(tuple(env[v] for v in vs))
                    if limit is not None and len(res) > limit:
                        raise TooMany()
            return
        ents, bpos = plans[i]
        probe = tuple(ents[p][1] if ents[p][0] == "c" else env[ents[p][1]] for p in bpos)
        for row, ts in indexes[i].get(probe, ()):
            e2 = env
            ok = True
            for pos, e in enumerate(ents):
                if e[0] == "v":
                    if e[1] in e2:
                        if e2[e[1]] != row[pos]:
                            ok = False
                            break
                    else:
                        if small_head and e[1] in hset and not gen.is_small(row[pos]):
                            ok = False  # only head tuples in the small range are wanted: prune as soon as one is not
                            break
                        if e2 is env:
                            e2 = dict(env)
                        e2[e[1]] = row[pos]
            if ok:
                rec(i + 1, e2, any_new or (new_since is not None and ts >= new_since))
    rec(0, {}, False)
    return res


def profile_db(atoms, profile, seed, tid_of):
    """the seeded (big-range) rows, as a database with timestamp 0"""
    sig = gen.signature(atoms)
    pname, default, over, dist = gen.profile_parts(profile)
    db = {}
    for name, ar in sorted(sig.items()):
        rows = {}
        for key, val in gen.profile_rows(name, ar, None, over.get(name, default), seed, atoms.types, dist):
            insert_row(db, tid_of, name, tuple(key), val, 0)
        db.setdefault(tid_of[name], {})
    return db


def insert_row(db, tid_of, name, key, val, ts):
    """insert a row the way a fact does: constructor sub-terms in the key are created first (same timestamp) if absent;
    a constructor row's value is the term itself; an existing tuple is left alone.  -> True if the row is new"""
    for x in key:
        if isinstance(x, tuple):
            insert_row(db, tid_of, x[0], tuple(x[1]), None, ts)
    rows = db.setdefault(tid_of[name], {})
    if key in rows:
        if gen.kind_of(name) == "fn" and val is not None and val < rows[key][0]:
            # :merge (min old new): a smaller value replaces the stored one and re-stamps the row
            rows[key] = (val, ts, rows[key][2])
            return True
        return False
    if gen.kind_of(name) == "ctor":
        val = (name, tuple(key))
    rows[key] = (val, ts, 0)
    return True


def merged(base, db):
    out = {tid: dict(rows) for tid, rows in base.items()}
    for tid, rows in db.items():
        out.setdefault(tid, {}).update(rows)
    return out


def all_small(t):
    return all(gen.is_small(x) for x in t)


# ------------------------------------------------------------------------------------------------
# symbolic side


def norm_plan_key(rule_rec, variants):
    """structural identity of (cached plan, variant requests), with timestamps abstracted"""
    def scrub(o):
        if isinstance(o, dict):
            return {k: scrub(v) for k, v in sorted(o.items()) if k not in ("subset_size", "desc", "rule", "action")}
        if isinstance(o, list):
            return [scrub(x) for x in o]
        return o
    mid = rule_rec["mid_ts"]
    vs = []
    for v in variants:
        ex = json.dumps(scrub(v["extra"]))
        vs.append(ex.replace('"val": %d' % mid, '"val": "MID"') if mid else ex)
    return hashlib.sha256(json.dumps([scrub(rule_rec["cached"]), vs, mid == 0, rule_rec["seminaive"],
                                      rule_rec["sole_focus"]]).encode()).hexdigest()[:16]


def variant_plan(cached, extra, prims=None):
    """The plan `add_rule_from_cached_plan` builds: extra constraints pushed as headers, then the cached headers."""
    p = json.loads(json.dumps(cached["plan"]))
    hdr = [{"atom": e["atom"], "constraints": [e["c"]]} for e in extra]
    p["header"] = hdr + [{"atom": h["atom"], "constraints": h["constraints"]} for h in cached["plan"]["header"]]
    return {"plan": p, "instrs": cached["instrs"], "used_vars": cached["used_vars"], "prims": prims}


def strip_sizes(o):
    if isinstance(o, dict):
        return {k: strip_sizes(v) for k, v in o.items() if k not in ("subset_size", "action")}
    if isinstance(o, list):
        return [strip_sizes(x) for x in o]
    return o


class Validator:
    def __init__(self, atoms, funcs_ev, include_subsumed=False, head=None):
        self.atoms = atoms
        self.names = {f["table"]: f for f in funcs_ev["funcs"]}
        self.tid_of = {f["name"]: f["table"] for f in funcs_ev["funcs"]}
        self.out_tid = self.tid_of["Out"]
        self.vs = head if head is not None else gen.body_vars(atoms)
        self.projecting = set(self.vs) != set(gen.body_vars(atoms))
        self.include_subsumed = include_subsumed
        self.solver_s = 0.0
        self.queries = 0

    def tables(self, rows=R):
        ts = {}
        for name_ in sorted(self.atoms.types):
            tid = self.tid_of[name_]
            if tid not in ts:
                f = self.names[tid]
                at, rt = self.atoms.types[name_]
                coltypes = list(at) + [rt if rt is not None else "id"]
                if len(coltypes) != f["func_cols"]:
                    raise model.ModelError("table %s has %d function columns, the generator expected %d" % (name_, f["func_cols"], len(coltypes)))
                ts[tid] = model.Table(tid, f["func_cols"], f["can_subsume"], rows, name=f["name"], coltypes=coltypes)
        return ts

    def flat_source(self):
        fl = []
        for a in self.atoms:
            if a.kind != "prim":
                fl.append({"table": self.tid_of[a.name], "args": a.args, "ret": a.ret})
        return fl

    def prims(self):
        return [{"kind": a.name, "args": a.args, "ret": a.ret} for a in self.atoms if a.kind == "prim"]

    cross = False          # thorough tier: every obligation query is also given to cvc5 and the verdicts must agree
    cross_stats = None

    def cvc5_verdict(self, s, timeout_s=60):
        import tempfile
        txt = "(set-logic ALL)\n" + s.to_smt2()
        with tempfile.NamedTemporaryFile("w", suffix=".smt2", delete=False) as f:
            f.write(txt)
            path = f.name
        try:
            p = subprocess.run(["cvc5", "--lang", "smt2", "--tlimit=%d" % (timeout_s * 1000), path],
                               capture_output=True, text=True, timeout=timeout_s + 30)
            out = (p.stdout + p.stderr)
            if "(error" in out:
                return "error"
            for line in p.stdout.split():
                if line in ("sat", "unsat", "unknown"):
                    return line
            return "unknown"
        except subprocess.TimeoutExpired:
            return "unknown"
        finally:
            os.remove(path)

    def check(self, s, timeout_ms=120000, obligation=False):
        s.set("timeout", timeout_ms)
        t0 = time.time()
        r = s.check()
        if obligation and Validator.cross and r in (z3.sat, z3.unsat):
            c = self.cvc5_verdict(s)
            st = Validator.cross_stats
            st["queries"] += 1
            if c == str(r):
                st["agree"] += 1
            elif c in ("unknown", "error"):
                st["inconclusive"] += 1
            else:
                st["disagree"] += 1
                raise model.ModelError("solver disagreement: z3 says %s, cvc5 says %s" % (r, c))
        if r == z3.unknown and timeout_ms >= 120000:
            # a loaded machine is not a verdict: one retry with five times the budget
            s.set("timeout", timeout_ms * 5)
            r = s.check()
        self.solver_s += time.time() - t0
        self.queries += 1
        return r

    def validate_run(self, rule_rec, variants, kept_plans):
        """-> dict(verdicts..., witness=None|{...})"""
        tables = self.tables()
        mid = rule_rec["mid_ts"]
        next_ts = rule_rec["next_ts"]
        nts = z3.IntVal(next_ts)
        wf = []
        for t in tables.values():
            wf += t.wellformed(D, nts)
        wf += model.eqsort_wellformed(tables)
        src = model.source_tuples(self.flat_source(), self.vs, tables, self.include_subsumed, self.prims())
        tup = [z3.Int("tup_%s" % v) for v in self.vs]
        in_all = z3.Or([z3.And(c, *[a == b for a, b in zip(t, tup)]) for c, t, _, _ in src])
        if rule_rec["seminaive"] and rule_rec["sole_focus"] is None:
            in_new = z3.Or([z3.And(c, z3.Or([x >= mid for x in tss]), *[a == b for a, b in zip(t, tup)])
                            for c, t, tss, _ in src])
        elif not rule_rec["seminaive"]:
            in_new = in_all
        else:
            raise model.ModelError("sole_focus rules are not generated by E2")
        # When the head projects variables away, a new match whose head tuple is ALSO produced by an all-old match
        # need not be re-derived (the tuple is in the database already): what must be emitted is All \ AllOld.
        not_old = z3.BoolVal(True)
        if self.projecting and rule_rec["seminaive"] and mid > 0:
            not_old = z3.Not(z3.Or([z3.And(c, z3.And([x < mid for x in tss]), *[a == b for a, b in zip(t, tup)])
                                    for c, t, tss, _ in src]))
            in_new = z3.And(in_new, not_old)
        # hook consistency: what the real add_rule_from_cached_plan built for a kept variant must be what
        # variant_plan() reconstructs for the dropped ones (headers = extra ++ cached headers)
        vplans = []
        for v in variants:
            vp = variant_plan(rule_rec["cached"], v["extra"], [p_["kind"] for p_ in self.prims()])
            if v["kept"] is not None:
                real = kept_plans[v["kept"]]
                if strip_sizes(real["plan"]) != strip_sizes(vp["plan"]) or real["instrs"] != vp["instrs"]:
                    raise model.ModelError("kept variant's plan differs from cached plan + extra constraints "
                                           "(the model of add_rule_from_cached_plan is out of date)")
            vplans.append(vp)

        def memb(alts, tup_):
            return z3.Or([z3.And(c, *[a == b for a, b in zip(t, tup_)]) for c, t in alts]) if alts else z3.BoolVal(False)
        # positive occurrence of "the plan emits tup": one alternative per variant, row choices existential
        any_plan_pos = z3.Or([memb(model.plan_tuples(vp, tables, self.out_tid, nts, "select"), tup) for vp in vplans]) \
            if vplans else z3.BoolVal(False)
        # negative occurrence, instantiated: for a source match on rows c, "no variant emits its tuple even when
        # its row choices are taken from the very rows of c".  not-exists implies this, so UNSAT of
        # (new match on c) and (this) proves that no new match is lost; a SAT answer is only a candidate.
        flat = self.flat_source()
        positional = (len(rule_rec["atoms"]) == len(flat) == len(rule_rec["atom_mapping"])
                      and all(ba["table"] == fa["table"] for ba, fa in zip(rule_rec["atoms"], flat)))
        combos = list(itertools.product(*[range(tables[a["table"]].R) for a in flat])) if positional else None

        def build_lost(use_positions):
            # when the bridge-level atom list lines up with the source atoms (same number, same tables in the same order),
            # the plan atom that came from source atom i is instantiated with exactly the row chosen for i.  Any restriction
            # of the candidates keeps the instantiated query sound for UNSAT; it keeps self-joins from blowing up (3^4 choices
            # per match).  A SAT answer under this restriction is re-asked with the per-table candidates.
            out_ = []
            for n_src, (c, t, tss, cands) in enumerate(src):
                if use_positions:
                    cands = dict(cands)
                    for i_, pa in enumerate(rule_rec["atom_mapping"]):
                        cands[("atom", pa)] = {combos[n_src][i_]}
                is_new = z3.Or([x >= mid for x in tss]) if (rule_rec["seminaive"] and rule_rec["sole_focus"] is None) else z3.BoolVal(True)
                emitted = [memb(model.plan_tuples(vp, tables, self.out_tid, nts, "inst", cands), t) for vp in vplans]
                out_.append(z3.And(c, is_new, z3.Not(z3.Or(emitted)) if emitted else z3.BoolVal(True),
                                   *[a == b for a, b in zip(t, tup)]))
            return z3.And(z3.Or(out_), not_old)
        lost_inst = build_lost(positional)
        res = {"mid": mid, "next_ts": next_ts, "n_variants": len(variants),
               "n_kept": sum(1 for v in variants if v["kept"] is not None)}
        # vacuity: the database constraints admit a match at all, and a new one
        s = z3.Solver()
        s.add(wf)
        s.add(in_new)
        res["witness_new_match_possible"] = str(self.check(s))
        # (1) no spurious match
        s = z3.Solver()
        s.add(wf)
        s.add(any_plan_pos, z3.Not(in_all))
        r1 = self.check(s, obligation=True)
        res["spurious"] = str(r1)
        if r1 == z3.sat:
            res["witness"] = self.extract(s.model(), tables, tup, "spurious")
            return res
        # (2) no lost (new) match
        s = z3.Solver()
        s.add(wf)
        s.add(lost_inst)
        r2 = self.check(s, obligation=True)
        if r2 == z3.sat and positional:
            s = z3.Solver()
            s.add(wf)
            s.add(build_lost(False))
            r2 = self.check(s, obligation=True)
        res["lost"] = str(r2)
        if r2 == z3.sat:
            # candidate only: confirm with the exact (fully expanded) negation when it is small enough,
            # otherwise the replay through the real binary decides
            m = s.model()
            res["witness"] = self.extract(m, tables, tup, "lost")
            res["witness"]["candidate"] = True
            try:
                if rule_rec["cached"]["plan"]["kind"] == "Single" and len(rule_rec["cached"]["plan"]["atoms"]) <= 4:
                    exact = z3.Or([memb(model.plan_tuples(vp, tables, self.out_tid, nts, "dnf"), tup) for vp in vplans]) \
                        if vplans else z3.BoolVal(False)
                    s2 = z3.Solver()
                    s2.add(wf)
                    s2.add(in_new, z3.Not(exact))
                    r3 = self.check(s2)
                    res["lost_exact"] = str(r3)
                    if r3 == z3.sat:
                        res["witness"] = self.extract(s2.model(), tables, tup, "lost")
                        res["witness"]["candidate"] = False
                    elif r3 == z3.unsat:
                        res["lost"] = "unsat"
                        del res["witness"]
            except model.ModelError:
                pass
            return res
        # diagnostics (not obligations): an old match redone / a match produced by two variants
        if mid > 0 and rule_rec["seminaive"]:
            s = z3.Solver()
            s.add(wf)
            s.add(any_plan_pos, z3.Not(in_new))
            res["diag_old_match_redone"] = str(self.check(s, 30000))
        return res

    def extract(self, m, tables, tup, kind):
        db = {}
        for tid, t in tables.items():
            rows = []
            for cols, pres in t.rows:
                if z3.is_true(m.eval(pres, model_completion=True)):
                    rows.append([m.eval(c, model_completion=True).as_long() for c in cols])
            db[t.name] = {"func_cols": t.func_cols, "subsume": t.subsume, "rows": rows, "coltypes": t.coltypes}
        return {"kind": kind, "tuple": [m.eval(x, model_completion=True).as_long() for x in tup], "db": db}

    # -- model pinned to a concrete database, compared with the real executor's output -------------
    def pinned_outputs(self, rule_rec, variants, cdb):
        """the Out tuples the model derives when the symbolic database is pinned to the concrete one (small rows only).
        Constructor terms are numbered (children before parents) for the model and mapped back afterwards."""
        ids = {}

        def num(x):
            if isinstance(x, tuple):
                if x not in ids:
                    for y in x[1]:
                        num(y)
                    ids[x] = 100 + len(ids)
                return ids[x]
            return x
        small = {}
        need = 1
        for name_ in sorted(self.atoms.types):
            tid = self.tid_of[name_]
            small[tid] = [(k, v) for k, v in sorted(cdb.get(tid, {}).items(), key=repr) if all(gen.is_small(x) for x in k)]
            need = max(need, len(small[tid]))
        if need > 8:
            raise model.ModelError("more than 8 small rows in a table")
        tables = self.tables(rows=max(R, need))
        nts = z3.IntVal(rule_rec["next_ts"])
        pin = []
        for tid, t in tables.items():
            for i, (cols, pres) in enumerate(t.rows):
                if i < len(small[tid]):
                    key, (val, ts, sub) = small[tid][i]
                    pin.append(pres)
                    for c, x in enumerate(key):
                        pin.append(cols[c] == num(x))
                    if val is not None:
                        pin.append(cols[t.func_cols - 1] == num(val))
                    pin.append(cols[t.ts_col] == ts)
                    if t.subsume:
                        pin.append(cols[t.sub_col] == sub)
                else:
                    pin.append(z3.Not(pres))
        back = {v: k for k, v in ids.items()}
        tup = [z3.Int("tup_%s" % v) for v in self.vs]
        alts = []
        for v in variants:
            vp = variant_plan(rule_rec["cached"], v["extra"], [p_["kind"] for p_ in self.prims()])
            alts += model.plan_tuples(vp, tables, self.out_tid, nts, "select")
        in_plan = z3.Or([z3.And(c, *[a == b for a, b in zip(t, tup)]) for c, t in alts]) if alts else z3.BoolVal(False)
        s = z3.Solver()
        s.add(pin)
        s.add(in_plan)
        out = set()
        while True:
            r = self.check(s, 60000)
            if r != z3.sat:
                if r != z3.unsat:
                    raise model.ModelError("solver gave %s while enumerating the pinned model" % r)
                break
            m = s.model()
            t = tuple(m.eval(x, model_completion=True).as_long() for x in tup)
            out.add(tuple(back.get(x, x) if gen.var_type(v) == "E" else x for x, v in zip(t, self.vs)))
            s.add(z3.Or([x != y for x, y in zip(tup, t)]))
            if len(out) > 500:
                raise model.ModelError("pinned model enumerates too many tuples")
        return out


# ------------------------------------------------------------------------------------------------


def small_rows(atoms, rnd, max_rows=R):
    """a small database over [0,D) (eq-sort positions: constructor terms over [0,D)) built around one or two random
    substitutions of the body (so that matches exist), padded with noise rows: name -> list of (key, val)"""
    sig = gen.signature(atoms)
    types = atoms.types
    consts = [e[1] for a in atoms if a.kind != "prim" for e in a.args + ([a.ret] if a.ret else []) if e[0] == "c"]
    pool = gen.ctor_pool(types, 0, D)
    db = {name: {} for name in sig}

    def rand_val(ty):
        if ty == "E":
            return rnd.choice(pool) if pool else 0
        return rnd.choice(consts) if consts and rnd.random() < 0.3 else rnd.randrange(D)

    for _ in range(rnd.randint(1, 2)):
        theta = {}

        def val_of(e, ty):
            if e[0] == "c":
                return e[1]
            if e[1] not in theta:
                theta[e[1]] = rand_val(ty) if ty == "E" else rnd.randrange(D)
            return theta[e[1]]
        rows = []
        ok = True
        for a in [x for x in atoms if x.kind == "ctor"] + [x for x in atoms if x.kind not in ("ctor", "prim")]:
            at, rt = types[a.name]
            key = tuple(val_of(e, t) for e, t in zip(a.args, at))
            val = None
            if a.kind == "ctor":
                term = (a.name, key)
                if a.ret[0] == "v":
                    if a.ret[1] in theta and theta[a.ret[1]] != term:
                        ok = False  # this substitution cannot satisfy the atom; still insert the rest as noise
                    else:
                        theta[a.ret[1]] = term
            elif a.kind == "fn":
                val = val_of(a.ret, "i")
            rows.append((a.name, key, val))
        for name, key, val in rows:
            if rnd.random() < 0.15:
                continue
            if len(db[name]) < max_rows or key in db[name]:
                db[name].setdefault(key, val if val is not None else 0)
    for name, ar in sorted(sig.items()):
        at, rt = types[name]
        want = rnd.randint(len(db[name]), max_rows)
        for _ in range(10):
            if len(db[name]) >= want:
                break
            key = tuple(rand_val(t) for t in at)
            db[name].setdefault(key, rnd.randrange(D))
    out = {name: sorted(rows.items(), key=repr) for name, rows in db.items()}
    # merge functions: some keys are written twice with different values (the stored value must be the min, whatever
    # the order, the batching and the iteration in which the two writes arrive)
    for name in out:
        if gen.kind_of(name) == "fn":
            for key, val in list(out[name]):
                if rnd.random() < 0.4:
                    out[name].append((key, rnd.randrange(D)))
    return out


def all_terms(x, acc):
    if isinstance(x, tuple):
        acc.add(x)
        for y in x[1]:
            all_terms(y, acc)


def split_steps(sdb, rnd, schedule, with_subsume=False, subsume_ctors=True, with_unions=False, types=None):
    """Distribute the small rows over the steps of `schedule` (a list of ruleset names): each row is written
    either at top level before some step ('pre') or by a rule during some step but the last ('aux').
    with_subsume: some relation rows are later subsumed (at top level or by a rule), and some subsumed tuples are
    inserted again afterwards (they must stay subsumed).
    -> (steps for render_program, timeline: list of (step, 'pre'|'aux', 'ins'|'sub', name, key, val) in program order)"""
    n = len(schedule)
    steps = [{"ruleset": rs, "pre": [], "aux": []} for rs in schedule]
    timeline = []

    def emit(k, how, kind, name, key, val):
        if kind == "ins":
            steps[k][how].append(gen.fact_text(name, key, val))
        else:
            steps[k][how].append("(subsume (%s %s))" % (name, " ".join(gen.val_text(x) for x in key)))
        timeline.append((k, how, kind, name, tuple(key), val))

    later = []
    placed_at = {}
    for name, rows in sorted(sdb.items()):
        for key, val in rows:
            k = rnd.randrange(n)
            how = "aux" if (k < n - 1 and rnd.random() < 0.4) else "pre"
            if (name, tuple(key)) in placed_at and rnd.random() < 0.6:
                # a second write to the same key of a merge function: often by the same rule in the same iteration
                # (one flush), which is where in-batch merging happens
                k, how = placed_at[(name, tuple(key))]
                if k < n - 1:
                    how = "aux"
            placed_at[(name, tuple(key))] = (k, how)
            emit(k, how, "ins", name, key, val)
            if with_subsume and (gen.kind_of(name) == "rel" or (gen.kind_of(name) == "ctor" and subsume_ctors)) and rnd.random() < 0.45:
                # subsume strictly later in program order: a later step, or later in the same (step, how) list
                k2 = rnd.randrange(k + 1, n) if how == "aux" else rnd.randrange(k, n)
                how2 = "aux" if (k2 < n - 1 and k2 > k and rnd.random() < 0.4) else "pre"
                later.append((k2, how2, "sub", name, key, val))
                if rnd.random() < 0.4 and k2 < n - 1:
                    later.append((rnd.randrange(k2 + 1, n), "pre", "ins", name, key, val))
    for ev in later:
        emit(*ev)
    if with_unions and with_subsume and subsume_ctors and types is not None:
        # targeted scenario for "a subsumed row merged with a congruent live row stays subsumed, in either order":
        # two rows c(a, k..) and c(b, k..) of a constructor with an eq-sort argument, one of them subsumed, then a ~ b
        base = [nm for nm in sorted(types) if gen.kind_of(nm) == "ctor" and all(t == "i" for t in types[nm][0])]
        nest = [nm for nm in sorted(types) if gen.kind_of(nm) == "ctor" and any(t == "E" for t in types[nm][0])]
        if base and nest and n >= 2:
            bn, cn_ = rnd.choice(base), rnd.choice(nest)
            i, j = rnd.sample(range(4), 2)
            a = (bn, tuple(i for _ in types[bn][0]))
            b = (bn, tuple(j for _ in types[bn][0]))
            kconst = rnd.randrange(4)
            ka = tuple(a if t == "E" else kconst for t in types[cn_][0])
            kb = tuple(b if t == "E" else kconst for t in types[cn_][0])
            first, second = (ka, kb) if rnd.random() < 0.5 else (kb, ka)
            k0 = rnd.randrange(n - 1)
            emit(k0, "pre", "ins", cn_, first, None)
            emit(k0, "pre", "ins", cn_, second, None)
            # a relation row mentioning each of the two terms, where the body has such a relation
            for rn in sorted(types):
                if gen.kind_of(rn) == "rel" and "E" in types[rn][0]:
                    for kk in (ka, kb):
                        emit(k0, "pre", "ins", rn, tuple((cn_, kk) if t == "E" else rnd.randrange(4) for t in types[rn][0]), None)
                    break
            emit(k0, "pre", "sub", cn_, ka if rnd.random() < 0.5 else kb, None)
            k1 = rnd.randrange(k0, n)
            steps[k1]["pre"].append("(union %s %s)" % (gen.val_text(a), gen.val_text(b)))
            timeline.append((k1, "pre", "union", None, (a, b), None))
            order_ = {"pre": 0, "aux": 1}
            timeline.sort(key=lambda e: (e[0], order_[e[1]]))
    if with_unions:
        terms = set()
        for name, rows in sdb.items():
            for key, val in rows:
                for x in key:
                    all_terms(x, terms)
                if gen.kind_of(name) == "ctor":
                    terms.add((name, tuple(key)))
        terms = sorted(terms, key=repr)
        for _ in range(rnd.randint(1, 2)):
            if len(terms) >= 2:
                a, b = rnd.sample(terms, 2)
                k = rnd.randrange(n)
                how = "aux" if (k < n - 1 and rnd.random() < 0.4) else "pre"
                steps[k][how].append("(union %s %s)" % (gen.val_text(a), gen.val_text(b)))
                timeline.append((k, how, "union", None, (a, b), None))
    # program order: by step; inside a step all 'pre' commands come before the run, 'aux' actions happen during it
    order = {"pre": 0, "aux": 1}
    timeline.sort(key=lambda e: (e[0], order[e[1]]))
    return steps, timeline


def db_at_step(timeline, step, prev_step, tid_of, mid):
    """table id -> {key: (val, ts, sub)} as it stands when the run of step `step` starts, for a rule whose
    previous run was step `prev_step` (None: never ran; then mid == 0).  Timestamps are synthetic but ordered
    like the real ones relative to `mid` (= that rule's last_run_at): written before the previous run
    -> mid-1; written by a rule DURING the previous run -> mid; anything later -> mid+1.  Subsuming a row
    re-stamps it; inserting an existing tuple again changes nothing."""
    db = {}
    unions = []
    for (k, how, kind, name, key, val) in timeline:
        if k > step or (k == step and how == "aux"):
            continue  # has not happened yet
        if kind == "union":
            for t in key:
                insert_row(db, tid_of, t[0], tuple(t[1]), None, 0)
            unions.append(key)
            continue
        if prev_step is None:
            ts = 0
        elif k < prev_step or (k == prev_step and how == "pre"):
            ts = mid - 1
        elif k == prev_step and how == "aux":
            ts = mid
        else:
            ts = mid + 1
        rows = db.setdefault(tid_of[name], {})
        if kind == "ins":
            insert_row(db, tid_of, name, key, val, ts)
        else:
            if key in rows and rows[key][2] == 0:
                rows[key] = (rows[key][0], ts, 1)
    if unions:
        return Canon(db, unions, tid_of).db(db)
    return db


class Canon:
    """congruence closure over the constructor terms of a concrete (term-level) database plus a list of unions:
    the equalities a rebuild must establish.  Used only by the concrete cross-check of histories with unions."""

    def __init__(self, db, unions, tid_of):
        self.parent = {}
        self.name_of = {tid: name for name, tid in tid_of.items()}
        terms = []
        for tid, rows in db.items():
            if gen.kind_of(self.name_of[tid]) == "ctor":
                for key in rows:
                    terms.append((self.name_of[tid], tuple(key)))
        for t in terms:
            self.parent.setdefault(t, t)
        for a, b in unions:
            self.parent.setdefault(a, a)
            self.parent.setdefault(b, b)
            self.union(a, b)
        changed = True
        while changed:
            changed = False
            sig = {}
            for t in list(self.parent):
                k = (t[0], tuple(self.val(x) for x in t[1]))
                if k in sig and self.find(sig[k]) != self.find(t):
                    self.union(sig[k], t)
                    changed = True
                sig.setdefault(k, t)
        # representative: smallest member by repr (deterministic, independent of union order)
        self.rep = {}
        for t in self.parent:
            r = self.find(t)
            if r not in self.rep or repr(t) < repr(self.rep[r]):
                self.rep[r] = t
        self.sig = {}
        for t in self.parent:
            self.sig[(t[0], tuple(self.val(x) for x in t[1]))] = self.rep[self.find(t)]

    def find(self, t):
        while self.parent[t] != t:
            self.parent[t] = self.parent[self.parent[t]]
            t = self.parent[t]
        return t

    def union(self, a, b):
        ra, rb = self.find(a), self.find(b)
        if ra != rb:
            self.parent[ra] = rb

    def val(self, x):
        """canonical form of a value: integers are themselves; a term is its class representative (terms the
        database never saw, e.g. an extracted term, are canonicalised argument-wise and looked up by congruence)"""
        if not isinstance(x, tuple):
            return x
        if x in self.parent and hasattr(self, "rep"):
            return self.rep[self.find(x)]
        if x in self.parent:
            return self.find(x)
        k = (x[0], tuple(self.val(y) for y in x[1]))
        if hasattr(self, "sig") and k in self.sig:
            return self.sig[k]
        return k

    def db(self, db):
        out = {}
        for tid, rows in db.items():
            name = self.name_of[tid]
            new = {}
            for key, (val, ts, sub) in rows.items():
                k2 = tuple(self.val(x) for x in key)
                v2 = self.val(val) if isinstance(val, tuple) else val
                if k2 in new:
                    ov, ots, osub = new[k2]
                    if gen.kind_of(name) == "fn":
                        v2 = min(ov, v2)
                    new[k2] = (v2 if gen.kind_of(name) != "ctor" else ov, max(ots, ts), max(osub, sub))
                else:
                    new[k2] = (v2, ts, sub)
            out[tid] = new
        return out


def main_rule_records(events, out_tid):
    """-> list of (event index, funcs event, rule_rec, variants, kept_plans) for runs of the rule writing out_tid"""
    res = []
    last_funcs = None
    for i, ev in enumerate(events):
        if ev.get("ev") == "funcs":
            last_funcs = ev
            continue
        if ev.get("ev") != "run":
            continue
        for rr in ev["rules"]:
            if not rr["atoms"]:
                continue
            writes_out = any(ins.get("table") == out_tid for ins in rr["cached"]["instrs"])
            if not writes_out:
                continue
            lo, hi = rr["variants"]
            variants = ev["ruleset"]["variants"][lo:hi]
            res.append((i, last_funcs, rr, variants, ev["ruleset"]["plans"]))
    return res


def step_events(events, trig_tid):
    """event indices of the scheduled `(run <ruleset> 1)` commands, in order: run events containing a body
    rule or a Trig rule (i.e. not top-level actions, not the seed rule)"""
    idx = []
    for i, ev in enumerate(events):
        if ev.get("ev") != "run":
            continue
        if any(rr["atoms"] and rr["desc"] != "check_facts" and ":ruleset filt" not in rr["desc"] for rr in ev["rules"]):
            idx.append(i)
    return idx


# ------------------------------------------------------------------------------------------------
# witness replay through the real binary


def witness_terms(wit):
    """eq-sort id -> constructor term, from the witness's constructor tables (ids are unique and acyclic by the
    well-formedness assumption)"""
    rows = {}
    for name, t in wit["db"].items():
        if gen.kind_of(name) == "ctor":
            fc = t["func_cols"]
            for row in t["rows"]:
                rows[row[fc - 1]] = (name, row[:fc - 1], t["coltypes"])
    memo = {}

    def term(i, depth=0):
        if i not in memo:
            if i not in rows or depth > 8:
                raise model.ModelError("witness id %r has no constructor row" % i)
            name, args, cts = rows[i]
            memo[i] = (name, tuple(term(x, depth + 1) if ty == "E" else x for x, ty in zip(args, cts)))
        return memo[i]
    return term


def witness_db(wit, tid_of, upto_ts=None):
    """the witness as a concrete database keyed by table id, eq-sort ids replaced by terms"""
    term = witness_terms(wit)
    cdb = {}
    for name, t in wit["db"].items():
        fc = t["func_cols"]
        cts = t.get("coltypes") or ["i"] * fc
        rows = {}
        for row in t["rows"]:
            ts = row[fc]
            if upto_ts is not None and ts >= upto_ts:
                continue
            key = tuple(term(x) if ty == "E" else x for x, ty in zip(row[:fc - 1], cts))
            val = term(row[fc - 1]) if cts[fc - 1] == "E" else row[fc - 1]
            rows[key] = (val, ts, row[fc + 1] if t["subsume"] else 0)
        cdb[tid_of[name]] = rows
    return cdb


def witness_program(atoms, no_decomp, profile, wit, mid, head=None):
    """rows with ts < mid: top level before run 1; ts == mid: written by a rule during run 1;
    ts > mid: top level after run 1.  Subsumed rows: inserted, then `(subsume ...)` in the same class.
    Constructor rows are emitted before the rows that mention their ids (classes in this order, and inside
    a class constructor tables first, smaller ids first)."""
    term = witness_terms(wit)
    cls = {"old": [], "mid": [], "new": []}
    order = sorted(wit["db"].items(), key=lambda kv: (0 if gen.kind_of(kv[0]) == "ctor" else 1, kv[0]))
    for name, t in order:
        fc = t["func_cols"]
        cts = t.get("coltypes") or ["i"] * fc
        for row in sorted(t["rows"], key=lambda r: r[fc - 1]):
            ts = row[fc]
            key = tuple(term(x) if ty == "E" else x for x, ty in zip(row[:fc - 1], cts))
            val = row[fc - 1]
            sub = row[fc + 1] if t["subsume"] else 0
            cmds = [gen.fact_text(name, key, val)]
            if sub:
                if gen.kind_of(name) == "fn":
                    return None
                cmds.append("(subsume (%s %s))" % (name, " ".join(gen.val_text(k) for k in key)))
            g = "old" if (mid == 0 or ts < mid) else ("mid" if ts == mid else "new")
            cls[g].extend(cmds)
    if mid > 0:
        steps = [{"ruleset": "main", "pre": cls["old"], "aux": cls["mid"]}, {"ruleset": "main", "pre": cls["new"], "aux": []}]
    else:
        steps = [{"ruleset": "main", "pre": cls["old"], "aux": []}]
    return gen.render_program(atoms, no_decomp, profile, steps, head=head)


def replay_witness(binary, workdir, tag, atoms, no_decomp, profile, wit, rule_rec, plan_key, head=None, seed=0):
    """-> (reproduced: bool|None, note, program, expected, real)"""
    try:
        prog = witness_program(atoms, no_decomp, profile, wit, rule_rec["mid_ts"], head)
    except model.ModelError as e:
        return None, "witness cannot be rendered as a program: %s" % e, "", set(), set()
    if prog is None:
        return None, "witness subsumes a row of a merge function; not replayable from the surface language", "", set(), set()
    rc, out, err, events = run_program(binary, prog, workdir, tag)
    note = "exit=%d\nstderr tail: %s\n" % (rc, err[-600:])
    if rc != 0:
        return None, note + "replay program failed to run\n", prog, set(), set()
    funcs = [e for e in events if e["ev"] == "funcs"][-1]
    tid_of = {f["name"]: f["table"] for f in funcs["funcs"]}
    recs = main_rule_records(events, tid_of["Out"])
    keys = [norm_plan_key(rr, variants) for (_, _, rr, variants, _) in recs]
    real = {t for t in parse_out(out) if all_small(t)}
    exp = set()
    projecting = head is not None and set(head) != set(gen.body_vars(atoms))
    for phase_mid in ([None] if rule_rec["mid_ts"] == 0 else [rule_rec["mid_ts"], None]):
        cdb = witness_db(wit, tid_of, upto_ts=phase_mid)  # phase_mid: the database as it stood at the first run
        if projecting:
            exp |= {t for t in eval_body(atoms, tid_of, merged(profile_db(atoms, profile, seed, tid_of), cdb),
                                         small_only=False, head=head, small_head=True) if all_small(t)}
        else:
            exp |= eval_body(atoms, tid_of, cdb, head=head)
    note += "real Out (small range): %s\nexpected (nested-loop meaning of the body at each run): %s\n" % (sorted(real), sorted(exp))
    note += "plan keys in replay: %s ; plan under test: %s\n" % (keys, plan_key)
    if real != exp:
        return True, note + "REPRODUCED: the real engine's Out differs from the body's meaning\n", prog, exp, real
    return False, note + "not reproduced: the real engine's Out equals the body's meaning on the witness database\n", prog, exp, real


# ------------------------------------------------------------------------------------------------


def write_artefact(path, prop, what, program, expected, real, extra=""):
    with open(path, "w") as f:
        f.write("kind=e2\nproperty=%s\nwhat=%s\nexpected_out=%s\nreal_out_when_found=%s\n---program---\n%s---end---\n%s\n"
                % (prop, what, json.dumps({k: sorted(v) for k, v in expected.items()} if isinstance(expected, dict) else {"Out": sorted(expected)}),
                   json.dumps({k: sorted(v) for k, v in real.items()} if isinstance(real, dict) else {"Out": sorted(real)}), program, extra))


def replay_artefact(binary, path, workdir):
    """re-run the recorded program through the current build: -> (reproduced, note)"""
    body = open(path).read()
    m = re.search(r"---program---\n(.*?)---end---", body, re.S)
    e = re.search(r"^expected_out=(.*)$", body, re.M)
    if not m or not e:
        return None, "artefact has no program / expected_out"
    exp = {k: {tuple(t) for t in v} for k, v in json.loads(e.group(1)).items()}
    rc, out, err, _ = run_program(binary, m.group(1), workdir, "replay")
    if "__must_exit_zero__" in exp:
        return (rc != 0), "program exited %d (0 expected)\n%s" % (rc, err[-600:])
    if rc != 0:
        return None, "program exited %d: %s" % (rc, err[-400:])
    out4 = None
    if any(k.endswith(" with -j 4") for k in exp):
        rc4, out4, err4, _ = run_program(binary, m.group(1), workdir, "replay_j4", extra_args=("-j", "4"), extra_env=PAR_ENV)
        if rc4 != 0:
            out4 = ""

    def got(k):
        if k == "exit status with -j 4":
            return {(0,)} if out4 else {(1,)}
        if k.endswith(" with -j 4"):
            return {t for t in parse_out(out4 or "", k[:-len(" with -j 4")]) if all_small(t)}
        if k.endswith("!raw"):
            return parse_out(out, k[:-4], raw=True)
        return {t for t in parse_out(out, k) if all_small(t)}
    real = {k: got(k) for k in exp}
    note = "real (small range): %s\nexpected: %s\n" % ({k: sorted(v) for k, v in real.items()}, {k: sorted(v) for k, v in exp.items()})
    return (real != exp), note


def cover_query(V, rr, variants):
    """C03.1 — the variant set covers every new match, as a statement about timestamps only:
    exists t_1..t_k < next_ts with some t_i >= mid such that no variant's constraint list holds.  -> 'unsat' wanted"""
    k = len(rr["atoms"])
    mid = rr["mid_ts"]
    t = [z3.Int("t%d" % i) for i in range(k)]
    plan_atom_to_src = {pa: i for i, pa in enumerate(rr["atom_mapping"])}
    s = z3.Solver()
    for x in t:
        s.add(x >= 0, x < rr["next_ts"])
    if not rr["seminaive"]:
        newc = z3.BoolVal(True)
    elif rr["sole_focus"] is not None:
        newc = t[rr["sole_focus"]] >= mid
    else:
        newc = z3.Or([x >= mid for x in t]) if t else z3.BoolVal(mid == 0)
    s.add(newc)
    for v in variants:
        cs = []
        for e in v["extra"]:
            i = plan_atom_to_src.get(e["atom"])
            c = e["c"]
            if i is None or c.get("col") != rr["atoms"][i]["func_cols"]:
                cs.append(z3.BoolVal(False))  # not a timestamp constraint on a body atom: cannot be assumed to hold
                continue
            cs.append(model.constraint_holds(c, {c["col"]: t[i]}))
        s.add(z3.Not(z3.And(cs) if cs else z3.BoolVal(True)))
    r = V.check(s, 30000, obligation=True)
    return str(r), ([s.model().eval(x, model_completion=True).as_long() for x in t] if r == z3.sat else None)


def work_item(args):
    """One (shape, no_decomp, profile, seed, schedule) program: run it through the real binary, validate every
    plan not seen before, cross-check model and engine on the concrete database.  -> dict"""
    (binary, workdir, prop, sid, body, no_decomp, profile, seed, schedule, rules, seen_keys) = args
    Validator.cross = bool(os.environ.get("VERIF_E2_CVC5"))
    if Validator.cross_stats is None:
        Validator.cross_stats = {"queries": 0, "agree": 0, "inconclusive": 0, "disagree": 0}
    res = {"shape": sid, "body": body, "no_decomp": no_decomp, "profile": profile[0], "seed": seed,
           "schedule": "".join(("A" if r == "all" else r[0]) for r in schedule) + ("c" if "__companion__" in rules else ""),
           "plans": [], "errors": [], "violations": [], "sanity": [], "chain": [], "cover": [], "solver_s": 0.0, "queries": 0}
    try:
        atoms = gen.parse_body(body)
        head = gen.head_vars(body)
        tag = "%s_%s_%s_%s_%d" % (sid, "nd" if no_decomp else "d", profile[0], res["schedule"], seed)
        rnd = random.Random(zlib.crc32(tag.encode()))
        sdb = small_rows(atoms, rnd)
        # a class whose only node is subsumed prints as `Unextractable`: constructor rows are subsumed only when no
        # head variable has the eq-sort (the rule's matches stay observable through the printed Out table)
        with_unions = seed >= 1000 and any(gen.kind_of(nm) == "ctor" for nm in atoms.types)
        steps, placed = split_steps(sdb, rnd, schedule, with_subsume=(prop == "C13"),
                                    subsume_ctors=not any(gen.var_type(v) == "E" for v in head), with_unions=with_unions,
                                    types=atoms.types)
        res["unions"] = sum(1 for e in placed if e[2] == "union")
        tail = None
        check_expect = None
        if prop == "C13":
            # (check body) sees subsumed rows; its expected outcome comes from the whole final database
            tid_guess = None
            tail = ["(check %s)" % atoms.text]
        # whole-range comparison (profile rows included) when the rule's total output is of manageable size: exercises
        # the executor's large-subset paths (cached trie nodes, index choice, dynamic re-sorting), which the
        # small-range comparison cannot see.  Only for monotone histories (no subsumption, no unions).
        exp_full = {}
        companion = None
        cbody = rules.get("__companion__")
        rules = {k_: v_ for k_, v_ in rules.items() if k_ != "__companion__"}
        if cbody:
            catoms = gen.parse_body(cbody)
            for nm, sg in catoms.types.items():
                if atoms.types.get(nm) != sg:
                    raise ValueError("companion body uses %s with another signature" % nm)
            companion = (catoms, gen.head_vars(cbody), "main")
        if prop in ("C02", "C03") and not res["unions"]:
            ident = {nm: nm for nm in atoms.types}
            pdb = profile_db(atoms, profile, seed, ident)
            for rs, (outrel, ropts) in sorted(rules.items()):
                ef = set()
                try:
                    for k_ in [k_ for k_, r_ in enumerate(schedule) if r_ == rs or r_ == "all"]:
                        # union over the runs: with merge functions a match of an earlier run may no longer hold later
                        ef |= eval_body(atoms, ident, merged(pdb, db_at_step(placed, k_, None, ident, 0)), small_only=False,
                                        head=head, limit=30000)
                    if len(ef) <= 30000:
                        exp_full[outrel] = ef
                except TooMany:
                    pass
            if companion:
                ef = set()
                try:
                    for k_ in [k_ for k_, r_ in enumerate(schedule) if r_ == companion[2]]:
                        ef |= eval_body(companion[0], ident, merged(pdb, db_at_step(placed, k_, None, ident, 0)), small_only=False,
                                        head=companion[1], limit=30000)
                    if len(ef) <= 30000:
                        exp_full["OutC"] = ef
                except TooMany:
                    pass
            for o in sorted(exp_full):
                tail = (tail or []) + ["(print-function %s 40000)" % o, "(print-size %s)" % o]
        text = gen.render_program(atoms, no_decomp, profile, steps, seed=seed, rules=rules, head=head, tail=tail, companion=companion)
        rc, out, err, events = run_program(binary, text, workdir, tag)
        check_failed = False
        if prop == "C13" and rc != 0 and "Check failed" in err:
            # the check did not hold: everything before it still ran and was dumped; printed tables are missing,
            # so re-run without the check to read them
            check_failed = True
            text2 = gen.render_program(atoms, no_decomp, profile, steps, seed=seed, rules=rules, head=head, tail=None, companion=companion)
            rc, out, err2, _ = run_program(binary, text2, workdir, tag + "_nocheck")
        if rc != 0:
            if rc == 101 or "panicked at" in err:
                # the engine panicked on a well-typed, monotone generated program: that is a violation in itself
                art = os.path.join(workdir, tag + ".panic.txt")
                write_artefact(art, prop, "the engine panicked (exit %d) on a generated well-typed monotone program" % rc, text,
                               {"__must_exit_zero__": []}, {"__must_exit_zero__": []}, "stderr tail:\n" + err[-1500:])
                res["violations"].append({"key": "panic:" + sid, "what": "egglog panicked (exit %d) on generated program %s: %s"
                                          % (rc, tag, " ".join(err[-300:].split())), "replay": art, "reproduced": True})
            else:
                res["errors"].append("egglog exited %d on generated program %s: %s" % (rc, tag, err[-400:]))
            return res
        # the printed tables must parse completely (guards the comparisons below against a change of output format)
        printed = sorted(exp_full) + [o + "S" for _rs, (o, _x) in sorted(rules.items())]
        sizes = printed_sizes(out)
        if len(sizes) != len(printed):
            res["errors"].append("%s: expected %d print-size lines in the output, found %d (output format changed?)" % (tag, len(printed), len(sizes)))
            return res
        for rel_, n_ in zip(printed, sizes):
            got_ = len(parse_out(out, rel_, raw=True))
            if got_ != n_ and n_ <= 40000:
                res["errors"].append("%s: print-size says %s has %d rows but %d were parsed from print-function (output format changed?)"
                                     % (tag, rel_, n_, got_))
                return res
        funcs = [e for e in events if e["ev"] == "funcs"][-1]
        V = Validator(atoms, funcs, head=head)
        base = profile_db(atoms, profile, seed, V.tid_of) if V.projecting else {}

        def meaning(cdb, **kw):
            # with a projecting head, profile rows can match atoms that share no variable with the head
            if V.projecting:
                return {t for t in eval_body(atoms, V.tid_of, merged(base, cdb), small_only=False, head=head, small_head=True, **kw)
                        if all_small(t)}
            return eval_body(atoms, V.tid_of, cdb, head=head, **kw)
        pin_ok = ((not V.projecting) or not any(base.values())) and not res["unions"]
        sev = step_events(events, None)
        if len(sev) != len(schedule):
            res["errors"].append("%s: %d scheduled runs but %d run events with body rules in the dump" % (tag, len(schedule), len(sev)))
            return res
        ev_to_step = {e: k for k, e in enumerate(sev)}
        real_all, exp_all = {}, {}
        cn_final = None
        if res["unions"]:
            fdb = {}
            fun = []
            for (k_, how_, kind_, name_, key_, val_) in placed:
                if kind_ == "union":
                    for t_ in key_:
                        insert_row(fdb, V.tid_of, t_[0], tuple(t_[1]), None, 0)
                    fun.append(key_)
                elif kind_ == "ins":
                    insert_row(fdb, V.tid_of, name_, key_, val_, 0)
            cn_final = Canon(fdb, fun, V.tid_of)
        for rs, (outrel, ropts) in sorted(rules.items()):
            V.out_tid = V.tid_of[outrel]
            recs = main_rule_records(events, V.out_tid)
            my_steps = [k for k, r_ in enumerate(schedule) if r_ == rs or r_ == "all"]
            # a combined ruleset can list one rule twice: the second record of the same run event must find nothing new
            dup = [(i, rr_) for n_, (i, _f, rr_, _v, _p) in enumerate(recs) if n_ > 0 and recs[n_ - 1][0] == i]
            for i_, rr_ in dup:
                if rr_["mid_ts"] != rr_["next_ts"]:
                    res["errors"].append("%s: ruleset %s: a rule listed twice in one run has last_run_at %d != next_ts %d the second time"
                                         % (tag, rs, rr_["mid_ts"], rr_["next_ts"]))
            recs = [rec_ for n_, rec_ in enumerate(recs) if n_ == 0 or recs[n_ - 1][0] != rec_[0]]
            if [ev_to_step.get(i) for (i, _, _, _, _) in recs] != my_steps:
                res["errors"].append("%s: rule of ruleset %s ran at steps %s, scheduled %s"
                                     % (tag, rs, [ev_to_step.get(i) for (i, _, _, _, _) in recs], my_steps))
                continue
            naive = ":naive" in ropts
            real = {t for t in parse_out(out, outrel) if all_small(t)}
            exp = set()
            prev = None
            prev_next_ts = 0
            for (i, fe, rr, variants, plans) in recs:
                k = ev_to_step[i]
                # --- trace facts (deterministic, reported separately): the semi-naive window has no gap
                ok_chain = (rr["mid_ts"] == prev_next_ts) and rr["next_ts"] > rr["mid_ts"]
                res["chain"].append({"tag": tag, "ruleset": rs, "step": k, "mid": rr["mid_ts"], "next_ts": rr["next_ts"],
                                     "prev_next_ts": prev_next_ts, "ok": ok_chain})
                if not ok_chain:
                    res["errors"].append("%s: ruleset %s step %d: last_run_at = %d but the rule's previous run had next_ts = %d "
                                         "(next_ts now %d): rows stamped in between fall outside every semi-naive window"
                                         % (tag, rs, k, rr["mid_ts"], prev_next_ts, rr["next_ts"]))
                if rr["seminaive"] == naive:
                    res["errors"].append("%s: rule options %r but dumped seminaive=%s" % (tag, ropts, rr["seminaive"]))
                cdb = db_at_step(placed, k, prev, V.tid_of, rr["mid_ts"])
                exp |= meaning(cdb)
                key = norm_plan_key(rr, variants)
                # --- model vs body meaning on this concrete database (every program, every run)
                try:
                    if not pin_ok:
                        raise StopIteration
                    po = V.pinned_outputs(rr, variants, cdb)
                    want_all = meaning(cdb)
                    want = want_all if naive else meaning(cdb, new_since=rr["mid_ts"])
                    if not naive and rr["mid_ts"] > 0:
                        old_db = {tid: {k_: r_ for k_, r_ in rows.items() if r_[1] < rr["mid_ts"]} for tid, rows in cdb.items()}
                        want = want - meaning(old_db)
                    ok = want <= po <= want_all
                    res["sanity"].append({"tag": tag, "ruleset": rs, "step": k, "model_out": len(po), "new": len(want),
                                          "all": len(want_all), "agree": ok, "key": key})
                    if not ok:
                        res["errors"].append("%s step %d: the model of plan %s, pinned to the concrete database, emits %s; "
                                             "new matches %s, all matches %s" % (tag, k, key, sorted(po), sorted(want), sorted(want_all)))
                except StopIteration:
                    pass
                except model.ModelError as e:
                    res["errors"].append("%s: %s" % (tag, e))
                prev, prev_next_ts = k, rr["next_ts"]
                if key in seen_keys:
                    continue
                seen_keys[key] = tag
                # --- C03.1 cover of the variant set (timestamps only)
                cq, cw = cover_query(V, rr, variants)
                res["cover"].append({"key": key, "verdict": cq, "witness_ts": cw})
                try:
                    v = V.validate_run(rr, variants, plans)
                except model.ModelError as e:
                    res["errors"].append("%s: plan outside the model: %s" % (tag, e))
                    continue
                kind = rr["cached"]["plan"]["kind"]
                prec = {"key": key, "tag": tag, "kind": kind, "blocks": len(rr["cached"]["plan"].get("blocks", [])),
                        "mid0": rr["mid_ts"] == 0, "n_atoms": len(rr["atoms"]), "seminaive": rr["seminaive"], "cover": cq,
                        "verdict": {k_: v[k_] for k_ in v if k_ != "witness"}}
                res["plans"].append(prec)
                bad = [k_ for k_ in ("spurious", "lost") if v.get(k_) not in ("unsat", None)]
                if v.get("witness_new_match_possible") != "sat":
                    res["errors"].append("%s: vacuous: no database within the bounds has a new match (%s)" % (tag, v.get("witness_new_match_possible")))
                if "witness" in v:
                    w = v["witness"]
                    rep, note, prog, wexp, wreal = replay_witness(binary, workdir, tag + "_replay", atoms, no_decomp, profile, w, rr, key, head, seed)
                    art = os.path.join(workdir, "%s.%s.witness.txt" % (tag, key))
                    write_artefact(art, prop, "solver witness (%s match) for plan %s" % (w["kind"], key), prog, wexp, wreal,
                                   "shape=%s body=%s no_decomp=%s profile=%s\nwitness=%s\n%s"
                                   % (sid, body, no_decomp, profile[0], json.dumps(w), note))
                    res["violations"].append({"key": "%s:%s:%s" % (w["kind"], sid, "nd" if no_decomp else "d"),
                                              "what": "%s match on plan %s (%s, %s, profile %s): tuple %s"
                                              % (w["kind"], key, sid, kind, profile[0], w["tuple"]),
                                              "replay": art, "reproduced": bool(rep), "replay_status": rep})
                elif bad:
                    res["errors"].append("%s: solver returned %s" % (tag, {k_: v.get(k_) for k_ in bad}))
                elif cq != "unsat":
                    res["errors"].append("%s: plan %s: the semantic queries are unsat but the timestamp cover query is %s (%s)"
                                         % (tag, key, cq, cw))
            if cn_final is not None:
                # compare modulo the equalities that hold at the end (Out rows are themselves re-canonicalised)
                real = {tuple(cn_final.val(x) for x in t) for t in real}
                exp = {tuple(cn_final.val(x) for x in t) for t in exp}
            real_all[outrel], exp_all[outrel] = real, exp
            res["sanity"].append({"tag": tag, "ruleset": rs, "real_out": len(real), "expected": len(exp), "agree": real == exp})
        if prop == "C13":
            final = db_at_step(placed, len(schedule), None, V.tid_of, 0)
            fullbase = profile_db(atoms, profile, seed, V.tid_of)
            try:
                holds = bool(eval_body(atoms, V.tid_of, merged(fullbase, final), small_only=False, head=[], include_subsumed=True, limit=0))
            except TooMany:
                holds = True  # one match is enough
            res["sanity"].append({"tag": tag, "check_expected": holds, "check_real": not check_failed, "agree": holds != check_failed})
            if holds == check_failed:
                art = os.path.join(workdir, tag + ".check.txt")
                write_artefact(art, prop, "(check body) outcome differs from the body's meaning including subsumed rows", text,
                               {"check": [[int(holds)]]}, {"check": [[int(not check_failed)]]}, "shape=%s" % sid)
                res["violations"].append({"key": "check:" + tag, "what": "(check %s) %s but the body %s on the final database (subsumed rows included)"
                                          % (body, "failed" if check_failed else "passed", "holds" if holds else "does not hold"),
                                          "replay": art, "reproduced": True})
            # the dumped plan of the check: must see subsumed rows (include_subsumed) -- solver obligation
            VC = Validator(atoms, funcs, include_subsumed=True, head=[])
            VC.out_tid = None
            for i, ev in enumerate(events):
                if ev.get("ev") != "run":
                    continue
                for rr in ev["rules"]:
                    if rr["desc"] != "check_facts" or not rr["atoms"]:
                        continue
                    lo, hi = rr["variants"]
                    variants = ev["ruleset"]["variants"][lo:hi]
                    key = "chk-" + norm_plan_key(rr, variants)
                    if key in seen_keys:
                        continue
                    seen_keys[key] = tag
                    try:
                        v = VC.validate_run(rr, variants, ev["ruleset"]["plans"])
                    except model.ModelError as e:
                        res["errors"].append("%s: check plan outside the model: %s" % (tag, e))
                        continue
                    res["plans"].append({"key": key, "tag": tag, "kind": rr["cached"]["plan"]["kind"], "blocks": len(rr["cached"]["plan"].get("blocks", [])),
                                         "mid0": True, "n_atoms": len(rr["atoms"]), "seminaive": rr["seminaive"], "cover": "unsat", "check_plan": True,
                                         "verdict": {k_: v[k_] for k_ in v if k_ != "witness"}})
                    if v.get("witness_new_match_possible") != "sat":
                        res["errors"].append("%s: vacuous check-plan query" % tag)
                    if "witness" in v:
                        w = v["witness"]
                        res["violations"].append({"key": "check-%s:%s" % (w["kind"], sid),
                                                  "what": "check plan %s: %s binding (subsumed rows must be visible to check): witness %s"
                                                  % (key, w["kind"], json.dumps(w["db"])), "replay": "", "reproduced": False,
                                                  "replay_status": None})
                    elif [k_ for k_ in ("spurious", "lost") if v.get(k_) not in ("unsat", None)]:
                        res["errors"].append("%s: solver returned %s on the check plan" % (tag, v))
            res["solver_s"] += VC.solver_s
            res["queries"] += VC.queries
        # the same program once more with 4 threads and every parallelism cut-off at 0, so that the parallel code paths
        # (staged outputs, parallel rebuild / index construction) run on these small inputs: same printed tables required
        if prop in ("C02", "C03") and profile[0] in ("p3", "hot", "p60") and os.environ.get("VERIF_E2_PARALLEL", "1") != "0":
            rc4, out4, err4, _ = run_program(binary, text, workdir, tag + "_j4", extra_args=("-j", "4"), extra_env=PAR_ENV)
            if rc4 != 0:
                real_all["exit status with -j 4"] = {(rc4,)}
                exp_all["exit status with -j 4"] = {(0,)}
            else:
                for rs_, (outrel_, _o) in sorted(rules.items()):
                    r4 = {t for t in parse_out(out4, outrel_) if all_small(t)}
                    r1 = {t for t in parse_out(out, outrel_) if all_small(t)}
                    if cn_final is not None:
                        # printed class representatives may differ between runs: compare modulo the final closure
                        r4 = {tuple(cn_final.val(x) for x in t) for t in r4}
                        r1 = {tuple(cn_final.val(x) for x in t) for t in r1}
                    res["sanity"].append({"tag": tag, "threads4": outrel_, "agree": r4 == r1})
                    if r4 != r1:
                        real_all[outrel_ + " with -j 4"] = r4
                        exp_all[outrel_ + " with -j 4"] = r1
        for outrel, ef in sorted(exp_full.items()):
            rf = parse_out(out, outrel, raw=True)
            res["sanity"].append({"tag": tag, "full_range": outrel, "real_out": len(rf), "expected": len(ef), "agree": rf == ef})
            if rf != ef:
                real_all[outrel + "!raw"] = rf
                exp_all[outrel + "!raw"] = ef
        if real_all != exp_all:
            art = os.path.join(workdir, tag + ".concrete.txt")
            write_artefact(art, prop, "concrete cross-check: the real engine's output differs from the nested-loop meaning of the body",
                           text, exp_all, real_all, "shape=%s body=%s schedule=%s" % (sid, body, res["schedule"]))
            res["violations"].append({"key": "concrete:" + tag, "what": "real output differs from the body's meaning on a concrete "
                                      "history (found by the concrete cross-check of the model, no solver involved): real %s expected %s"
                                      % ({k: sorted(v)[:40] for k, v in real_all.items()}, {k: sorted(v)[:40] for k, v in exp_all.items()}),
                                      "replay": art, "reproduced": True})
        res["solver_s"] += V.solver_s
        res["queries"] += V.queries
        res["cvc5"] = dict(Validator.cross_stats)
        Validator.cross_stats = {"queries": 0, "agree": 0, "inconclusive": 0, "disagree": 0}
    except Exception as e:  # noqa
        import traceback
        res["errors"].append("driver exception in %s: %r\n%s" % (sid, e, traceback.format_exc()[-1500:]))
    return res


def shape_worker(args):
    (binary, workdir, prop, sid, body, configs) = args
    seen = {}
    out = []
    for (nd, prof, seed, schedule, rules) in configs:
        out.append(work_item((binary, workdir, prop, sid, body, nd, prof, seed, schedule, rules, seen)))
    return out


C03_SCHEDULES_QUICK = [
    ["other", "main", "all"],
    ["main", "other", "main"],
    ["main", "main", "other", "main"],
    ["other", "main", "main", "other", "main"],
]
C03_SCHEDULES_THOROUGH = C03_SCHEDULES_QUICK + [
    ["main", "all", "other", "all"],
    ["other", "other", "main", "main"],
    ["main", "other", "other", "main", "other", "main"],
    ["main", "main", "main", "main"],
]
C03_SHAPES_QUICK = {"one", "chain2", "self2", "fn_chain", "fn_dup", "triangle", "chain3", "star3", "fn_mid", "chain4", "cycle4", "two_comp",
                    "g_rep", "p_chain2", "p_tri", "k_nest1", "k_chain", "k_dup_key", "f_lt_link", "f_add_join"}


def is_cross(body):
    """the body's table atoms fall into more than one connected component (a cross product): its output grows with
    the product of the table sizes, so it only gets the small profiles"""
    atoms = [a for a in gen.parse_body(body) if a.kind != "prim"]
    comp = list(range(len(atoms)))

    def find(i):
        while comp[i] != i:
            i = comp[i]
        return i
    vs = [{e[1] for e in a.args + ([a.ret] if a.ret else []) if e[0] == "v"} for a in atoms]
    for i in range(len(atoms)):
        for j in range(i):
            if vs[i] & vs[j]:
                comp[find(i)] = find(j)
    return len({find(i) for i in range(len(atoms))}) > 1


def small_profile(p):
    return p[1] <= 120 and all(v <= 400 for v in p[2].values())


def configs_for(prop, tier, seed):
    quick = tier == "quick"
    shapes = [(sid, body) for sid, body, tag in gen.SHAPES if (not quick) or tag == "q"]
    profiles = gen.PROFILES_QUICK if quick else gen.PROFILES_THOROUGH
    seeds = [seed] if quick else [seed, seed + 1, seed + 2]
    items = []
    all_profiles = profiles
    if prop == "C02":
        rules = {"main": ("Out", "")}
        for sid, body in shapes:
            cfgs = [(nd, prof, sd, ["main", "main"], rules) for nd in (False, True) for prof in profiles for sd in seeds]
            if sid in gen.COMPANIONS:
                crules = {"main": ("Out", ""), "__companion__": gen.COMPANIONS[sid]}
                cfgs += [(nd, prof, sd, ["main", "main"], crules) for nd in (False,) for prof in profiles for sd in seeds]
            items.append((sid, body, cfgs))
    elif prop == "C03":
        scheds = C03_SCHEDULES_QUICK if quick else C03_SCHEDULES_THOROUGH
        rule_sets = [{"main": ("Out", ""), "other": ("Out2", "")},
                     {"main": ("Out", " :naive"), "other": ("Out2", "")}]
        profs = [p for p in profiles if p[0] in (("p3", "p60") if quick else ("p0", "p60", "p400"))]
        for sid, body in shapes:
            if quick and sid not in C03_SHAPES_QUICK:
                continue
            cfgs = [(nd, prof, sd, sc, rl) for sc in scheds for rl in rule_sets for prof in profs
                    for nd in ((False,) if quick else (False, True)) for sd in seeds[:1]]
            if any(gen.kind_of(nm) == "ctor" for nm in gen.parse_body(body).types):
                # the same histories with top-level / rule-made unions in them (seed + 1000 switches them on): rows that
                # only become matchable through rebuilding must be found by the next semi-naive run
                cfgs += [(nd, prof, sd + 1000, sc, rl) for (nd, prof, sd, sc, rl) in cfgs]
            items.append((sid, body, cfgs))
    elif prop == "C13":
        rules = {"main": ("Out", "")}
        profs = [p for p in profiles if p[0] in (("p0", "p3", "p60") if quick else ("p0", "p3", "p60", "skew", "p400"))]
        for sid, body in shapes:
            if any(a.kind == "fn" for a in gen.parse_body(body)):
                continue  # merge functions cannot be subsumed
            cfgs = [(nd, prof, sd, sc, rules) for sc in (["main", "main"], ["main", "main", "main"]) for prof in profs
                    for nd in (False, True) for sd in (seeds if not quick else seeds[:1])]
            if any(gen.kind_of(nm) == "ctor" for nm in gen.parse_body(body).types):
                # with unions: a subsumed row merged with a congruent live row (either order) must stay subsumed
                cfgs += [(nd, prof, sd + 1000, sc, rl) for (nd, prof, sd, sc, rl) in cfgs]
            items.append((sid, body, cfgs))
    else:
        raise SystemExit("no E2 configuration for " + prop)
    def n_table_atoms(body):
        return sum(1 for a in gen.parse_body(body) if a.kind != "prim")
    # cross products only get small profiles; four-atom joins do not get the 400 / 1000-row profiles (a 400-row four-way
    # self-join has millions of matches: the debug-build engine and the evaluator need minutes per program)
    items = [(sid, body, [c for c in cfgs if small_profile(c[1]) or not (is_cross(body) or n_table_atoms(body) >= 4)])
             for sid, body, cfgs in items]
    return items, shapes, profiles, seeds


def main():
    import argparse
    import multiprocessing as mp
    ap = argparse.ArgumentParser()
    ap.add_argument("--prop", required=True)
    ap.add_argument("--tier", default="quick")
    ap.add_argument("--seed", type=int, default=0)
    ap.add_argument("--out", required=True)
    ap.add_argument("--workdir", required=True)
    ap.add_argument("--only", default=None)
    ap.add_argument("--replay", default=None)
    ap.add_argument("--build-only", action="store_true")
    ap.add_argument("--jobs", type=int, default=int(os.environ.get("VERIF_E2_JOBS", "12")))
    a = ap.parse_args()
    t0 = time.time()

    def log(*x):
        print("[e2]", *x, flush=True)

    result = {"error": None, "violations": [], "obligations": 0, "discharged": 0, "queries": 0, "solver_seconds": 0.0,
              "programs": 0, "distinct_nontrivial": 0, "disagreements_checked": 0, "samples": [], "assumptions": [],
              "errors": []}
    try:
        binary = build_binary(log)
    except Exception as e:  # noqa
        result["error"] = "cannot build the instrumented egglog binary: %s" % e
        json.dump(result, open(a.out, "w"))
        return 2
    if a.build_only:
        log("built", binary)
        return 0
    if a.replay:
        rep, note = replay_artefact(binary, a.replay, a.workdir)
        print(note)
        if rep:
            print("VIOLATION property=%s replay=%s" % (a.prop, a.replay))
            return 1
        print("did not reproduce" if rep is False else "replay could not be run")
        return 0 if rep is False else 2
    if a.tier == "thorough":
        os.environ["VERIF_E2_CVC5"] = "1"
    cfg_items, shapes, profiles, seeds = configs_for(a.prop, a.tier, a.seed)
    if a.only:
        cfg_items = [c for c in cfg_items if a.only in c[0]]
    os.makedirs(a.workdir, exist_ok=True)
    items = [(binary, a.workdir, a.prop, sid, body, cfgs) for sid, body, cfgs in cfg_items]
    rnd = random.Random(a.seed)
    rnd.shuffle(items)
    all_res = []
    with mp.Pool(a.jobs) as pool:
        for lst in pool.imap_unordered(shape_worker, items):
            all_res += lst
            r0 = lst[0]
            log("%s: %d programs, %d distinct plans, %d errors, %d violations" % (
                r0["shape"], len(lst), sum(len(r["plans"]) for r in lst), sum(len(r["errors"]) for r in lst),
                sum(len(r["violations"]) for r in lst)))
    matrix = {}
    kinds = {}
    plans = []
    for r in all_res:
        result["errors"] += r["errors"]
        result["violations"] += r["violations"]
        result["solver_seconds"] += r["solver_s"]
        result["queries"] += r["queries"]
        result["programs"] += 1
        cell = matrix.setdefault(r["shape"], {})
        cell.setdefault(("nd/" if r["no_decomp"] else "d/") + r["profile"], [])
        cell[("nd/" if r["no_decomp"] else "d/") + r["profile"]] += [p["key"] for p in r["plans"]]
        for p in r["plans"]:
            plans.append(p)
            k = p["kind"] + ("/%d blocks" % p["blocks"] if p["kind"] == "Decomposed" else "")
            kinds[k] = kinds.get(k, 0) + 1
    cv = {"queries": 0, "agree": 0, "inconclusive": 0, "disagree": 0}
    for r in all_res:
        for k_, v_ in (r.get("cvc5") or {}).items():
            cv[k_] += v_
    result["second_solver_cvc5"] = cv
    chain = [c for r in all_res for c in r["chain"]]
    cover = [c for r in all_res for c in r["cover"]]
    result["extra"] = {"trace_chain_checks": {"run": len(chain), "ok": sum(1 for c in chain if c["ok"])},
                       "variant_cover_queries": {"run": len(cover), "unsat": sum(1 for c in cover if c["verdict"] == "unsat")},
                       "schedules": sorted({r["schedule"] for r in all_res}),
                       "seminaive_plans": sum(1 for p in plans if p.get("seminaive")),
                       "naive_plans": sum(1 for p in plans if not p.get("seminaive"))}
    n_sanity = sum(len(r["sanity"]) for r in all_res)
    n_sanity_ok = sum(1 for r in all_res for s_ in r["sanity"] if s_["agree"])
    for p in plans:
        result["obligations"] += 3
        v = p["verdict"]
        result["discharged"] += (1 if v.get("spurious") == "unsat" else 0) + (1 if v.get("lost") == "unsat" else 0) \
            + (1 if p.get("cover") == "unsat" else 0)
    result["distinct_plans"] = len(plans)
    result["distinct_nontrivial"] = sum(1 for p in plans if p["verdict"].get("witness_new_match_possible") == "sat")
    result["plan_kinds"] = kinds
    result["shape_profile_matrix"] = matrix
    result["disagreements_checked"] = len(result["violations"])
    result["model_vs_real_executor_checks"] = {"run": n_sanity, "agree": n_sanity_ok}
    result["samples"] = [{"plan": p["key"], "from": p["tag"], "kind": p["kind"], "verdict": p["verdict"]}
                         for p in rnd.sample(plans, min(6, len(plans)))]
    result["bounds"] = {"rows_per_table": R, "value_domain": D, "max_atoms": 4, "max_arity": 3,
                        "shapes": len(cfg_items), "profiles": [p[0] for p in profiles], "seeds": seeds}
    result["model_sha256"] = hashlib.sha256(open(os.path.join(HERE, "model.py"), "rb").read()).hexdigest()[:16]
    result["solver"] = "z3 %s (python bindings), QF linear integer arithmetic" % z3.get_version_string()
    result["wall_s"] = round(time.time() - t0, 1)
    result["assumptions"] = [
        "translation validation: the planner's code runs concretely on the enumerated shapes x size profiles; what the solver "
        "quantifies over is the database each emitted plan is later run on (<= %d rows per table, values in [0,%d), "
        "arbitrary timestamps < next_ts, arbitrary subsume flags, keys unique per table)" % (R, D),
        "trusted: the stage semantics of lib/e2/model.py (sha %s), cross-checked against the real executor on %d concrete runs"
        % (result["model_sha256"], n_sanity),
        "header subsets are taken to be exactly the rows satisfying the header's constraints (decided separately by the "
        "C16 fast_subset kernels)",
        "the database is canonical at the start of the iteration (matching modulo equality = syntactic matching)",
        "relations over i64 and i64-valued merge functions only; eq-sort constructors, containers and primitive filters are outside",
        "executor internals (index choice, trie sharing, dynamic stage re-sorting, batching) are outside, except as exercised "
        "by the concrete cross-check runs",
    ]
    json.dump(result, open(a.out, "w"), indent=1)
    log("done: %d programs, %d distinct plans %s, %d/%d obligations discharged, %d violations, %d errors, %.0fs"
        % (result["programs"], len(plans), kinds, result["discharged"], result["obligations"],
           len(result["violations"]), len(result["errors"]), time.time() - t0))
    return 0


if __name__ == "__main__":
    sys.exit(main())
