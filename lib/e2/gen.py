"""E2 — enumerated rule-body shapes, size profiles, and rendering to egglog programs.

A body is written  "R(x,y) S(y,z) f(z)=w T(mkA(w),1) mkB(e,x)=e2" :
  Upper-case name      = relation                          (table row: args.., fresh id, ts, subsume)
  lower-case name      = function  i64.. -> i64 with :merge (min old new)   (FD: keys determine the value)
  name starting `mk`   = constructor of the eq-sort E; may be nested inside arguments, or bound with `=var`
  integer literal      = i64 constant;  identifier = variable; variables whose name starts with `e` have sort E.
Nested constructor terms are flattened HERE (independently of egglog's own lowering) into fresh variables
`_t<n>` plus constructor atoms; the program text handed to egglog keeps them nested.
Unless a head is given (`-> x,y`), every named variable is carried into the head `(Out v1 .. vn)` (sorted by name),
so that an Out row IS the substitution; this is what makes solver witnesses observable when replayed.
"""
import re
import zlib

BIG = 1000  # profile rows live in [BIG, ...); witness / sanity rows live in [0, D)


PRIMS = {"lt": "<", "ne": "!=", "add": "+"}  # lt(a,b), ne(a,b): guards; add(a,b)=c: computed value


def kind_of(name):
    if name in PRIMS:
        return "prim"
    if name.startswith("mk"):
        return "ctor"
    return "fn" if name[0].islower() else "rel"


class Atom:
    """a FLAT atom: args / ret are entries ('v', name) | ('c', int)"""

    def __init__(self, name, args, ret=None):
        self.name = name
        self.args = args
        self.ret = ret  # None for relations; entry for functions and constructors
        self.kind = kind_of(name)
        self.is_func = self.kind in ("fn", "ctor")  # has a value column that the body can bind

    def render(self):
        def r(e):
            return e[1] if e[0] == "v" else str(e[1])
        inner = "(%s%s)" % (self.name, "".join(" " + r(a) for a in self.args))
        if self.is_func:
            return "(= %s %s)" % (r(self.ret), inner)
        return inner


class Body(list):
    """flat atoms + the nested egglog text of the body + column types"""
    text = ""
    types = None  # name -> ([arg types], ret type | None), types 'i' | 'E'


def split_head(s):
    """ "R(x,y) S(y,z) -> x"  ->  ("R(x,y) S(y,z)", ["x"]) ; no arrow: every variable is in the head"""
    if "->" in s:
        b, h = s.split("->")
        return b.strip(), [v.strip() for v in h.split(",") if v.strip()]
    return s.strip(), None


def head_vars(spec):
    body, hv = split_head(spec)
    return hv if hv is not None else body_vars(parse_body(body))


def _tokenize(s):
    return re.findall(r"[A-Za-z_][A-Za-z0-9_]*|-?\d+|[(),=]", s)


def _parse_term(toks, i):
    t = toks[i]
    if re.fullmatch(r"-?\d+", t):
        return ("c", int(t)), i + 1
    if i + 1 < len(toks) and toks[i + 1] == "(":
        args = []
        i += 2
        while toks[i] != ")":
            a, i = _parse_term(toks, i)
            args.append(a)
            if toks[i] == ",":
                i += 1
        return ("app", t, args), i + 1
    if not re.fullmatch(r"[A-Za-z_][A-Za-z0-9_]*", t):
        raise ValueError("unexpected token %r" % t)
    return ("v", t), i + 1


def _term_text(t):
    if t[0] == "c":
        return str(t[1])
    if t[0] == "v":
        return t[1]
    return "(%s%s)" % (t[1], "".join(" " + _term_text(a) for a in t[2]))


def _ty(t):
    if t[0] == "c":
        return "i"
    if t[0] == "v":
        return "E" if t[1].startswith("e") or t[1].startswith("_t") else "i"
    return "E" if kind_of(t[1]) == "ctor" else "i"


def parse_body(s):
    s = split_head(s)[0]
    toks = _tokenize(s)
    i = 0
    out = Body()
    texts = []
    types = {}
    fresh = [0]

    def note(name, args, ret):
        sig = ([_ty(a) for a in args], (None if ret is None else ("E" if kind_of(name) == "ctor" else "i")))
        if name in types and types[name] != sig:
            raise ValueError("inconsistent types for %s: %s vs %s" % (name, types[name], sig))
        types[name] = sig

    def flat(t):
        """-> entry; nested applications become fresh variables + constructor atoms"""
        if t[0] in ("c", "v"):
            return t
        if kind_of(t[1]) != "ctor":
            raise ValueError("only constructors may be nested: " + t[1])
        args = [flat(a) for a in t[2]]
        fresh[0] += 1
        v = ("v", "_t%d" % fresh[0])
        note(t[1], t[2], v)
        out.append(Atom(t[1], args, v))
        return v

    while i < len(toks):
        t, i = _parse_term(toks, i)
        if t[0] != "app":
            raise ValueError("atom expected at %r" % (t,))
        ret = None
        if i < len(toks) and toks[i] == "=":
            ret, i = _parse_term(toks, i + 1)
        name = t[1]
        k = kind_of(name)
        if k == "prim":
            args = [flat(a) for a in t[2]]
            if name == "add":
                if ret is None or ret[0] == "app":
                    raise ValueError("add(a,b)=c expected")
                out.append(Atom(name, args, ret))
                texts.append("(= %s (+ %s))" % (_term_text(ret), " ".join(_term_text(a) for a in t[2])))
            else:
                out.append(Atom(name, args))
                texts.append("(%s %s)" % (PRIMS[name], " ".join(_term_text(a) for a in t[2])))
        elif k == "rel":
            if ret is not None:
                raise ValueError("relation atom with =ret")
            note(name, t[2], None)
            args = [flat(a) for a in t[2]]
            out.append(Atom(name, args))
            texts.append(_term_text(t))
        else:
            if ret is None:
                raise ValueError("%s atom needs =ret: %s" % (k, name))
            note(name, t[2], ret)
            args = [flat(a) for a in t[2]]
            out.append(Atom(name, args, ret))
            texts.append("(= %s %s)" % (_term_text(ret), _term_text(t)))
    ctor_names = [nm for nm in types if kind_of(nm) == "ctor"]
    needs_E = ctor_names or any(t == "E" for sig in types.values() for t in sig[0])
    if needs_E and not any(all(t == "i" for t in types[nm][0]) for nm in ctor_names):
        # every eq-sort value needs a finite term: an implicit base constructor that the body does not mention
        types["mkZ"] = (["i"], "E")
    out.text = " ".join(texts)
    out.types = types
    return out


def body_vars(atoms):
    """named variables (the fresh `_t<n>` ones introduced by flattening are not part of the substitution)"""
    vs = set()
    for a in atoms:
        for e in a.args + ([a.ret] if a.ret else []):
            if e[0] == "v" and not e[1].startswith("_"):
                vs.add(e[1])
    return sorted(vs)


def var_type(v):
    return "E" if v.startswith("e") or v.startswith("_t") else "i"


def signature(atoms):
    """name -> arity (number of key columns)"""
    sig = {}
    for a in atoms:
        if a.kind == "prim":
            continue
        if a.name in sig and sig[a.name] != len(a.args):
            raise ValueError("inconsistent arity for " + a.name)
        sig[a.name] = len(a.args)
    return sig


def val_text(v):
    """a concrete value: int, or a constructor term ('mkA', (args..))"""
    if isinstance(v, tuple):
        return "(%s%s)" % (v[0], "".join(" " + val_text(x) for x in v[1]))
    return str(v)


def is_small(v):
    if isinstance(v, tuple):
        return all(is_small(x) for x in v[1])
    return v < BIG


# ------------------------------------------------------------------------------------------------
# shapes: (id, body).  <= 4 atoms, arity <= 3, <= 5 variables (quick tier uses those marked q)

SHAPES = [
    # single atoms
    ("one", "R(x,y)", "q"),
    ("one_rep", "R(x,x)", "q"),
    ("one_const", "R(1,y)", "q"),
    ("one_fn", "f(x)=y", "q"),
    ("one_fn_const_ret", "f(x)=2", "q"),
    # two atoms
    ("chain2", "R(x,y) S(y,z)", "q"),
    ("self2", "R(x,y) R(y,z)", "q"),
    ("same2", "R(x,y) S(x,y)", "q"),
    ("cross2", "R(x,y) S(z,w)", "q"),
    ("fn_chain", "R(x,y) f(y)=z", "q"),
    ("fn_dup", "f(x)=y f(x)=z", "q"),
    ("fn_inv", "f(x)=y f(z)=y", "q"),
    ("const_link", "R(x,1) S(1,y)", "q"),
    ("rep_link", "R(x,x) S(x,y)", "q"),
    # three atoms
    ("triangle", "R(x,y) S(y,z) T(z,x)", "q"),
    ("chain3", "R(x,y) S(y,z) T(z,w)", "q"),
    ("star3", "R(x,a) S(x,b) T(x,c)", "q"),
    ("self_tri", "R(x,y) R(y,z) R(z,x)", "q"),
    ("fn_mid", "R(x,y) f(y)=z S(z,w)", "q"),
    ("fn_two", "f(x)=y g(y)=z R(z,x)", "q"),
    ("tern", "R(x,y,z) S(y,z) T(z,x)", "q"),
    ("rep_tri", "R(x,x) S(x,y) T(y,y)", ""),
    ("const_tri", "R(x,2) S(2,y) T(y,x)", ""),
    ("cross3", "R(x,y) S(y,z) T(a,b)", ""),
    # four atoms
    ("chain4", "R(x,y) S(y,z) T(z,w) U(w,v)", "q"),
    ("cycle4", "R(x,y) S(y,z) T(z,w) U(w,x)", "q"),
    ("star4", "R(x,a) S(x,b) T(x,c) U(x,d)", ""),
    ("clique4", "R(x,y) S(y,z) T(z,x) U(x,y,z)", ""),
    ("tri_tail", "R(x,y) S(y,z) T(z,x) U(z,w)", "q"),
    ("two_comp", "R(x,y) S(y,z) T(a,b) U(b,c)", "q"),
    ("fn_chain4", "R(x,y) f(y)=z g(z)=w S(w,x)", ""),
    ("self_chain4", "R(x,y) R(y,z) R(z,w) R(w,v)", ""),
    ("diamond", "R(x,y) S(x,z) T(y,w) U(z,w)", ""),
    ("tern_chain", "R(x,y,z) S(z,w,v) T(v,x)", ""),
    ("fn_dup_chain", "f(x)=y f(x)=z R(y,z) S(z,w)", ""),
    # heads that project variables away: guard atoms, existence tests, variables used once and never in the head
    ("g_rep", "R(a,a) S(y) -> y", "q"),
    ("g_exists", "R(a,b) S(y) -> y", "q"),
    ("g_const", "R(a,1) S(y) -> y", "q"),
    ("g_fn", "f(a)=b S(y) -> y", "q"),
    ("p_chain2", "R(x,y) S(y,z) -> x", "q"),
    ("p_chain2b", "R(x,y) S(y,z) -> z", "q"),
    ("p_chain3", "R(x,y) S(y,z) T(z,w) -> x,w", "q"),
    ("p_tri", "R(x,y) S(y,z) T(z,x) -> x", "q"),
    ("p_rep_guard_tri", "R(a,a) S(x,y) T(y,z) U(z,x) -> x,y", "q"),
    ("p_rep_link", "R(x,x) S(x,y) T(y,y) -> y", ""),
    ("p_one", "R(x,y) -> x", "q"),
    ("p_one_rep", "R(x,x,y) -> y", "q"),
    ("one_rep3", "R(x,x,y) S(x)", "q"),
    ("p_star", "R(x,a) S(x,b) T(x,c) -> x", ""),
    ("p_chain4", "R(x,y) S(y,z) T(z,w) U(w,v) -> x,v", ""),
    ("p_two_guards", "R(a,a) S(b,b) T(y) -> y", ""),
    ("p_none", "R(a,b) S(b,c) -> ", "q"),
    # eq-sort constructors: nested terms are flattened by egglog's own lowering (and, independently, here)
    ("k_one", "mkA(x)=e", "q"),
    ("k_nest1", "R(mkA(x),y)", "q"),
    ("k_nest_join", "R(mkA(x),y) S(y,e) mkA(z)=e", "q"),
    ("k_two_same", "mkA(x)=e mkA(y)=e", "q"),
    ("k_dup_key", "mkA(x)=e mkA(x)=e2 R(e,e2)", "q"),
    ("k_deep", "R(mkB(mkA(x),y),z)", "q"),
    ("k_rewrite_like", "mkB(e1,x)=e mkB(e2,x)=e R(e1,e2)", ""),
    ("k_chain", "mkA(x)=e1 mkB(e1,y)=e2 S(e2,z)", "q"),
    ("k_assoc", "mkC(mkC(e1,e2),e3)=e", ""),
    ("k_guard", "R(mkA(a),b) S(y) -> y", ""),
    # primitive guards and computed values (they live in the action program; the join is planned without them)
    ("f_lt", "R(x,y) lt(x,y)", "q"),
    ("f_lt_link", "R(x,y) S(z,w) lt(x,z)", "q"),
    ("f_ne_self", "R(x,y) R(y,z) ne(x,z)", "q"),
    ("f_add", "R(x,y) add(x,y)=v", "q"),
    ("f_add_join", "R(x,y) S(z,w) add(y,w)=v lt(x,z)", "q"),
    ("f_add_bound", "R(x,y) S(y,z) add(x,y)=z", "q"),
    ("f_lt_tri", "R(x,y) S(y,z) T(z,x) lt(x,y)", ""),
    ("f_ne_proj", "R(x,y) S(z,w) ne(y,w) -> x,z", ""),
]

# companion rules: a second rule with a different body over the SAME tables, placed in the same ruleset, so that the
# executor shares roots / cached trie nodes / indexes between the two plans.  Its output is compared concretely only.
COMPANIONS = {
    "one": "R(x,x)",
    "one_rep": "R(x,y) -> x",
    "one_rep3": "R(x,z,z) S(x)",
    "chain2": "R(x,y) S(x,z)",
    "self2": "R(x,y) R(x,z) R(z,y)",
    "same2": "R(x,y) S(y,x)",
    "rep_link": "R(x,y) S(y,y)",
    "triangle": "R(x,y) S(y,z) T(z,y)",
    "chain3": "R(x,y) S(x,z) T(y,w)",
    "star3": "R(x,a) S(a,b) T(x,b)",
    "self_tri": "R(x,y) R(y,x)",
    "tern": "R(x,x,z) S(x,z) T(z,z)",
    "chain4": "R(x,y) S(x,z) T(y,w) U(z,w)",
    "cycle4": "R(x,y) S(y,x) T(x,w) U(w,y)",
    "p_one_rep": "R(x,y,y) -> x",
    "g_rep": "R(a,b) S(a) -> a",
}

# profile = rows seeded per table before planning: (default size, {name: size} overrides)
# (name, default rows per table, per-table overrides[, value distribution]):  distribution {"col0_mod": a, "mod": b}
# draws the first column from a values and the others from b values (default: about sqrt(n) values per column).
# "hot": many rows (> 16, > 32) share one first-column value -- the executor's cached-trie-node / re-sorting paths.
PROFILES_QUICK = [
    ("p0", 0, {}),
    ("hot", 120, {}, {"col0_mod": 3, "mod": 40}),
    ("p3", 3, {}),
    ("p60", 60, {}),
    ("skew", 60, {"R": 3, "T": 400}),
]
PROFILES_THOROUGH = PROFILES_QUICK + [
    ("p400", 400, {}),
    ("skew2", 400, {"S": 3, "U": 3}),
    ("skew3", 3, {"R": 400}),
    ("p1000", 1000, {"R": 60, "T": 20, "S": 200}),
]


def lcg(seed):
    x = (seed * 2654435761 + 12345) & 0xFFFFFFFF
    while True:
        x = (x * 1103515245 + 12345) & 0x7FFFFFFF
        yield x


def ctor_pool(types, lo, n, depth=2):
    """a deterministic pool of constructor terms of sort E over the integers lo..lo+n-1"""
    ctors = sorted(nm for nm in types if kind_of(nm) == "ctor")
    pool = []
    level = []
    for nm in ctors:
        at, _ = types[nm]
        if all(t == "i" for t in at):
            for k in range(n):
                level.append((nm, tuple(lo + ((k + j) % n) for j in range(len(at)))))
    pool += level
    for _ in range(depth - 1):
        nxt = []
        for nm in ctors:
            at, _ = types[nm]
            if any(t == "E" for t in at) and pool:
                for k in range(n):
                    args = tuple(pool[(k * 3 + j) % len(pool)] if t == "E" else lo + ((k + j) % n) for j, t in enumerate(at))
                    nxt.append((nm, args))
        pool += nxt
    return pool


def profile_parts(profile):
    return profile[0], profile[1], profile[2], (profile[3] if len(profile) > 3 else None)


def profile_rows(name, arity, is_func, n, seed, types=None, dist=None):
    """n distinct-key rows over the disjoint big range; joinable among themselves (small modulus).
    -> list of (key tuple, value | None); E-typed positions hold constructor terms over big integers."""
    g = lcg(zlib.crc32(("%s/%d" % (name, seed)).encode()) & 0xFFFF)
    at = types[name][0] if types and name in types else ["i"] * arity
    epool = ctor_pool(types, BIG, 6) if types and any(t == "E" for t in at) else []
    rows = {}
    m = max(4, int(n ** 0.5) + 2) if arity > 1 else n + 1
    tries = 0
    while len(rows) < n and tries < 50 * n + 100:
        tries += 1
        key = tuple((epool[next(g) % len(epool)] if (t == "E" and epool) else
                     BIG + (next(g) % ((dist["col0_mod"] if j == 0 else dist["mod"]) if dist else m))) for j, t in enumerate(at))
        if key in rows:
            continue
        rows[key] = BIG + (next(g) % m)
    out = []
    k = kind_of(name)
    for key, v in rows.items():
        out.append((key, v if k == "fn" else None))
    return out


def fact_text(name, key, val, is_func=None):
    ks = " ".join(val_text(k) for k in key)
    if kind_of(name) == "fn":
        return "(set (%s %s) %s)" % (name, ks, val_text(val))
    return "(%s %s)" % (name, ks)


def render_program(atoms, no_decomp, profile, steps, seed=0, rules=None, head=None, tail=None, companion=None):
    """steps: one entry per `(run <ruleset> 1)`:
         {"ruleset": name, "pre": [commands issued at top level before the run],
          "aux": [actions performed BY A RULE of that ruleset during this run]}
    Rows written by `aux` get the timestamp of that iteration, which is exactly the next run's last_run_at
    for the rules of that ruleset: the boundary case semi-naive evaluation must not lose.
    rules: {ruleset: (out relation, rule options)}; default {"main": ("Out", "")}.  -> program text"""
    rules = rules or {"main": ("Out", "")}
    sig = signature(atoms)
    types = atoms.types
    vs = head if head is not None else body_vars(atoms)
    tyname = {"i": "i64", "E": "E"}
    lines = []
    ctors = sorted(nm for nm in types if kind_of(nm) == "ctor")
    if ctors or any(var_type(v) == "E" for v in vs):
        lines.append("(sort E)")
        for nm in ctors:
            lines.append("(constructor %s (%s) E)" % (nm, " ".join(tyname[t] for t in types[nm][0])))
    for name, ar in sorted(sig.items()):
        k = kind_of(name)
        if k == "fn":
            lines.append("(function %s (%s) i64 :merge (min old new))" % (name, " ".join(tyname[t] for t in types[name][0])))
        elif k == "rel":
            lines.append("(relation %s (%s))" % (name, " ".join(tyname[t] for t in types[name][0])))
    for rs, (outrel, _) in sorted(rules.items()):
        lines.append("(relation %s (%s))" % (outrel, " ".join(tyname[var_type(v)] for v in vs)))
        # <Out>S: the rows of <Out> whose i64 components are all in the small range (profile rows can produce
        # millions of Out rows; only the small-range ones are compared, and print-function truncates)
        lines.append("(relation %sS (%s))" % (outrel, " ".join(tyname[var_type(v)] for v in vs)))
    lines.append("(relation Trig (i64))")
    lines.append("(ruleset seed)")
    lines.append("(ruleset filt)")
    for rs in sorted(rules):
        lines.append("(ruleset %s)" % rs)
    if any(st["ruleset"] == "all" for st in steps):
        # nested, overlapping combined rulesets: `all` reaches the rules of `main` twice
        lines.append("(unstable-combined-ruleset AB main other)")
        lines.append("(unstable-combined-ruleset all main AB)")
    pname, default, over, dist = profile_parts(profile)
    seeds = []
    for name, ar in sorted(sig.items()):
        n = over.get(name, default)
        for key, val in profile_rows(name, ar, kind_of(name) != "rel", n, seed, types, dist):
            seeds.append(fact_text(name, key, val))
    if seeds:
        lines.append("(rule () (%s) :ruleset seed)" % " ".join(seeds))
        lines.append("(run seed 1)")
    for rs, (outrel, ropts) in sorted(rules.items()):
        opts = ":ruleset %s" % rs + (" :no-decomp" if no_decomp else "") + ropts
        lines.append("(rule (%s) ((%s %s)) %s)" % (atoms.text, outrel, " ".join(vs), opts))
    if companion is not None:
        # (companion atoms, head, ruleset): same tables, different body, same ruleset as the main rule
        catoms, chead, crs = companion
        lines.insert(lines.index("(relation Trig (i64))"), "(relation OutC (%s))" % " ".join(tyname[var_type(v)] for v in chead))
        lines.append("(rule (%s) ((OutC %s)) :ruleset %s%s)" % (catoms.text, " ".join(chead), crs, " :no-decomp" if no_decomp else ""))
    for k, st in enumerate(steps):
        if st.get("aux"):
            lines.append("(rule ((Trig %d)) (%s) :ruleset %s)" % (k, " ".join(st["aux"]), "main" if st["ruleset"] == "all" else st["ruleset"]))
    for k, st in enumerate(steps):
        for cmd in st.get("pre", []):
            lines.append(cmd)
        if st.get("aux"):
            lines.append("(Trig %d)" % k)
        lines.append("(run %s 1)" % st["ruleset"])
    for cmd in tail or []:
        lines.append(cmd)
    for rs, (outrel, _) in sorted(rules.items()):
        hv = ["h%d" % i for i in range(len(vs))]
        guards = " ".join("(< %s %d)" % (h, BIG) for h, v in zip(hv, vs) if var_type(v) == "i")
        lines.append("(rule ((%s %s) %s) ((%sS %s)) :ruleset filt)" % (outrel, " ".join(hv), guards, outrel, " ".join(hv)))
    lines.append("(run filt 1)")
    for rs, (outrel, _) in sorted(rules.items()):
        lines.append("(print-function %sS 1000000)" % outrel)
        lines.append("(print-size %sS)" % outrel)  # lets the reader of the output verify that it parsed every row
    return "\n".join(lines) + "\n"
