"""E2 — enumerated rule-body shapes, size profiles, and rendering to egglog programs.

A body is written  "R(x,y) S(y,z) f(z)=w T(w,1)" :
  Upper-case name  = relation over i64 columns           (table row: args.., fresh id, ts, subsume)
  lower-case name  = function  i64.. -> i64 with :merge (min old new)   (FD: keys determine the value)
  integer literal  = constant;  identifier = variable.
Every named variable is carried into the head `(Out v1 .. vn)` (sorted by name), so that an Out row IS the
substitution; this is what makes solver witnesses observable when replayed through the real binary.
"""
import re
import zlib

BIG = 1000  # profile rows live in [BIG, ...); witness / sanity rows live in [0, D)


class Atom:
    def __init__(self, name, args, ret=None):
        self.name = name
        self.args = args  # list of ('v', name) | ('c', int)
        self.ret = ret    # None for relations; entry for functions
        self.is_func = name[0].islower()

    def render(self):
        def r(e):
            return e[1] if e[0] == "v" else str(e[1])
        inner = "(%s%s)" % (self.name, "".join(" " + r(a) for a in self.args))
        if self.is_func:
            return "(= %s %s)" % (r(self.ret), inner)
        return inner


def split_head(s):
    """ "R(x,y) S(y,z) -> x"  ->  ("R(x,y) S(y,z)", ["x"]) ; no arrow: every variable is in the head"""
    if "->" in s:
        b, h = s.split("->")
        return b.strip(), [v.strip() for v in h.split(",") if v.strip()]
    return s.strip(), None


def head_vars(spec):
    body, hv = split_head(spec)
    return hv if hv is not None else body_vars(parse_body(body))


def parse_body(s):
    s = split_head(s)[0]
    atoms = []
    for m in re.finditer(r"([A-Za-z][A-Za-z0-9_]*)\(([^)]*)\)(?:=([A-Za-z0-9_]+))?", s):
        name, args, ret = m.group(1), m.group(2), m.group(3)

        def ent(x):
            x = x.strip()
            return ("c", int(x)) if re.fullmatch(r"-?\d+", x) else ("v", x)
        a = [ent(x) for x in args.split(",") if x.strip()]
        if name[0].islower():
            if ret is None:
                raise ValueError("function atom needs =ret: " + m.group(0))
            atoms.append(Atom(name, a, ent(ret)))
        else:
            atoms.append(Atom(name, a))
    return atoms


def body_vars(atoms):
    vs = set()
    for a in atoms:
        for e in a.args + ([a.ret] if a.ret else []):
            if e[0] == "v":
                vs.add(e[1])
    return sorted(vs)


def signature(atoms):
    """name -> arity (number of key columns)"""
    sig = {}
    for a in atoms:
        if a.name in sig and sig[a.name] != len(a.args):
            raise ValueError("inconsistent arity for " + a.name)
        sig[a.name] = len(a.args)
    return sig


# ------------------------------------------------------------------------------------------------
# shapes: (id, body).  <= 4 atoms, arity <= 3, <= 5 variables (quick tier uses those marked q)

SHAPES = [
    # single atoms
    ("one", "R(x,y)", "q"),
    ("one_rep", "R(x,x)", "q"),
    ("one_const", "R(1,y)", "q"),
    ("one_fn", "f(x)=y", "q"),
    ("one_fn_const_ret", "f(x)=2", "q"),
    # two atoms
    ("chain2", "R(x,y) S(y,z)", "q"),
    ("self2", "R(x,y) R(y,z)", "q"),
    ("same2", "R(x,y) S(x,y)", "q"),
    ("cross2", "R(x,y) S(z,w)", "q"),
    ("fn_chain", "R(x,y) f(y)=z", "q"),
    ("fn_dup", "f(x)=y f(x)=z", "q"),
    ("fn_inv", "f(x)=y f(z)=y", "q"),
    ("const_link", "R(x,1) S(1,y)", "q"),
    ("rep_link", "R(x,x) S(x,y)", "q"),
    # three atoms
    ("triangle", "R(x,y) S(y,z) T(z,x)", "q"),
    ("chain3", "R(x,y) S(y,z) T(z,w)", "q"),
    ("star3", "R(x,a) S(x,b) T(x,c)", "q"),
    ("self_tri", "R(x,y) R(y,z) R(z,x)", "q"),
    ("fn_mid", "R(x,y) f(y)=z S(z,w)", "q"),
    ("fn_two", "f(x)=y g(y)=z R(z,x)", "q"),
    ("tern", "R(x,y,z) S(y,z) T(z,x)", "q"),
    ("rep_tri", "R(x,x) S(x,y) T(y,y)", ""),
    ("const_tri", "R(x,2) S(2,y) T(y,x)", ""),
    ("cross3", "R(x,y) S(y,z) T(a,b)", ""),
    # four atoms
    ("chain4", "R(x,y) S(y,z) T(z,w) U(w,v)", "q"),
    ("cycle4", "R(x,y) S(y,z) T(z,w) U(w,x)", "q"),
    ("star4", "R(x,a) S(x,b) T(x,c) U(x,d)", ""),
    ("clique4", "R(x,y) S(y,z) T(z,x) U(x,y,z)", ""),
    ("tri_tail", "R(x,y) S(y,z) T(z,x) U(z,w)", "q"),
    ("two_comp", "R(x,y) S(y,z) T(a,b) U(b,c)", "q"),
    ("fn_chain4", "R(x,y) f(y)=z g(z)=w S(w,x)", ""),
    ("self_chain4", "R(x,y) R(y,z) R(z,w) R(w,v)", ""),
    ("diamond", "R(x,y) S(x,z) T(y,w) U(z,w)", ""),
    ("tern_chain", "R(x,y,z) S(z,w,v) T(v,x)", ""),
    ("fn_dup_chain", "f(x)=y f(x)=z R(y,z) S(z,w)", ""),
    # heads that project variables away: guard atoms, existence tests, variables used once and never in the head
    ("g_rep", "R(a,a) S(y) -> y", "q"),
    ("g_exists", "R(a,b) S(y) -> y", "q"),
    ("g_const", "R(a,1) S(y) -> y", "q"),
    ("g_fn", "f(a)=b S(y) -> y", "q"),
    ("p_chain2", "R(x,y) S(y,z) -> x", "q"),
    ("p_chain2b", "R(x,y) S(y,z) -> z", "q"),
    ("p_chain3", "R(x,y) S(y,z) T(z,w) -> x,w", "q"),
    ("p_tri", "R(x,y) S(y,z) T(z,x) -> x", "q"),
    ("p_rep_guard_tri", "R(a,a) S(x,y) T(y,z) U(z,x) -> x,y", "q"),
    ("p_rep_link", "R(x,x) S(x,y) T(y,y) -> y", ""),
    ("p_one", "R(x,y) -> x", "q"),
    ("p_one_rep", "R(x,x,y) -> y", "q"),
    ("p_star", "R(x,a) S(x,b) T(x,c) -> x", ""),
    ("p_chain4", "R(x,y) S(y,z) T(z,w) U(w,v) -> x,v", ""),
    ("p_two_guards", "R(a,a) S(b,b) T(y) -> y", ""),
    ("p_none", "R(a,b) S(b,c) -> ", "q"),
]

# profile = rows seeded per table before planning: (default size, {name: size} overrides)
PROFILES_QUICK = [
    ("p0", 0, {}),
    ("p3", 3, {}),
    ("p60", 60, {}),
    ("skew", 60, {"R": 3, "T": 400}),
]
PROFILES_THOROUGH = PROFILES_QUICK + [
    ("p400", 400, {}),
    ("skew2", 400, {"S": 3, "U": 3}),
    ("skew3", 3, {"R": 400}),
    ("p2000", 2000, {"R": 60}),
]


def lcg(seed):
    x = (seed * 2654435761 + 12345) & 0xFFFFFFFF
    while True:
        x = (x * 1103515245 + 12345) & 0x7FFFFFFF
        yield x


def profile_rows(name, arity, is_func, n, seed):
    """n distinct-key rows over the disjoint big range; joinable among themselves (small modulus)"""
    g = lcg(zlib.crc32(("%s/%d" % (name, seed)).encode()) & 0xFFFF)
    rows = {}
    m = max(4, int(n ** 0.5) + 2) if arity > 1 else n + 1
    tries = 0
    while len(rows) < n and tries < 50 * n + 100:
        tries += 1
        key = tuple(BIG + (next(g) % m) for _ in range(arity))
        if key in rows:
            continue
        rows[key] = BIG + (next(g) % m)
    out = []
    for k, v in rows.items():
        out.append((k, v if is_func else None))
    return out


def fact_text(name, key, val, is_func):
    ks = " ".join(str(k) for k in key)
    if is_func:
        return "(set (%s %s) %d)" % (name, ks, val)
    return "(%s %s)" % (name, ks)


def render_program(atoms, no_decomp, profile, steps, seed=0, rules=None, head=None, tail=None):
    """steps: one entry per `(run <ruleset> 1)`:
         {"ruleset": name, "pre": [commands issued at top level before the run],
          "aux": [actions performed BY A RULE of that ruleset during this run]}
    Rows written by `aux` get the timestamp of that iteration, which is exactly the next run's last_run_at
    for the rules of that ruleset: the boundary case semi-naive evaluation must not lose.
    rules: {ruleset: (out relation, rule options)}; default {"main": ("Out", "")}.  -> program text"""
    rules = rules or {"main": ("Out", "")}
    sig = signature(atoms)
    vs = head if head is not None else body_vars(atoms)
    lines = []
    for name, ar in sorted(sig.items()):
        if name[0].islower():
            lines.append("(function %s (%s) i64 :merge (min old new))" % (name, " ".join(["i64"] * ar)))
        else:
            lines.append("(relation %s (%s))" % (name, " ".join(["i64"] * ar)))
    for rs, (outrel, _) in sorted(rules.items()):
        lines.append("(relation %s (%s))" % (outrel, " ".join(["i64"] * len(vs))))
    lines.append("(relation Trig (i64))")
    lines.append("(ruleset seed)")
    for rs in sorted(rules):
        lines.append("(ruleset %s)" % rs)
    pname, default, over = profile
    seeds = []
    for name, ar in sorted(sig.items()):
        n = over.get(name, default)
        for key, val in profile_rows(name, ar, name[0].islower(), n, seed):
            seeds.append(fact_text(name, key, val, name[0].islower()))
    if seeds:
        lines.append("(rule () (%s) :ruleset seed)" % " ".join(seeds))
        lines.append("(run seed 1)")
    body = " ".join(a.render() for a in atoms)
    for rs, (outrel, ropts) in sorted(rules.items()):
        opts = ":ruleset %s" % rs + (" :no-decomp" if no_decomp else "") + ropts
        lines.append("(rule (%s) ((%s %s)) %s)" % (body, outrel, " ".join(vs), opts))
    for k, st in enumerate(steps):
        if st.get("aux"):
            lines.append("(rule ((Trig %d)) (%s) :ruleset %s)" % (k, " ".join(st["aux"]), st["ruleset"]))
    for k, st in enumerate(steps):
        for cmd in st.get("pre", []):
            lines.append(cmd)
        if st.get("aux"):
            lines.append("(Trig %d)" % k)
        lines.append("(run %s 1)" % st["ruleset"])
    for cmd in tail or []:
        lines.append(cmd)
    for rs, (outrel, _) in sorted(rules.items()):
        lines.append("(print-function %s 1000000)" % outrel)
    return "\n".join(lines) + "\n"
