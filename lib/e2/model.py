"""E2 — symbolic execution of a *dumped* plan (what the real lowering + planner + semi-naive code emitted,
rendered by the cfg(egglog_verif) hook) over a symbolic database, and the relational meaning of the source
rule body over the same database.  z3 decides, for every database within the bounds, whether they agree.

Trusted model (DESIGN.md §3.2), read off core-relations/src/free_join/execute.rs:

  root(a)            = present rows of a's table passing every JoinHeader entry for a (header subsets are
                       taken to be exactly the rows satisfying the header's constraints: C16 / C03.2 kernels)
  Intersect{var,scans}      every scan (a,col,cs): row_a[col] == v  and cs(row_a);  beta[var] := v
  FusedIntersect{cover,bind,to_intersect}
                     cover.constraints(row_c); beta[var_i] := row_c[col_i] for (col_i,var_i) in bind;
                     for (spec, idx) in to_intersect:  row_s[spec.cols[j]] == row_c[bind[idx[j]].col]
                                                        and spec.constraints(row_s)
  block (stages, MatSpec{msg,val})   materialisation = { (beta|msg, beta|val) : stages succeed }
  FusedIntersectMat{mat, mode, bind, to_intersect}
        Full     : entry (k, nk);      column c addresses (k ++ nk)[c]
        KeyOnly  : entry key k;        column c addresses k[c]
        Value(vs): entry with k == beta[vs]; column c addresses nk[c]
        Lookup(vs): some entry with k == beta[vs]; binds nothing
        then to_intersect as above (addressed values instead of cover row values)
  a decomposed plan emits nothing if any block's materialisation is empty
  end of stage list: emit beta; the action program maps beta to the inserted row.

Because every stage only *refines* per-atom row sets conjunctively, "the final set for atom a is non-empty"
is "some single row of a satisfies all constraints put on a": one symbolic row choice per (block instance,
atom).  This is independent of the order in which commuting stages are run (the executor re-sorts them
dynamically), provided no variable is bound by two different stages -- checked structurally; a plan
violating it is reported as outside the model (inconclusive), never as holding.
"""
import itertools

import z3


class ModelError(Exception):
    """The dumped plan is outside what the model covers (reported as inconclusive)."""


ED = 16  # domain of eq-sort ids in the symbolic database


def eqsort_wellformed(tables):
    """Union-free eq-sort discipline (an ASSUMPTION of the claim, needed to replay witnesses from the surface
    language): constructor rows have pairwise distinct ids; an id is larger than the ids among its arguments;
    every eq-sort value stored anywhere is the id of a present constructor row that is not younger than the row
    holding it."""
    cs = []
    ctor_rows = []
    for t in tables.values():
        if t.coltypes[-1] == "E":
            for cols, pres in t.rows:
                ctor_rows.append((t, cols, pres))
    for i in range(len(ctor_rows)):
        ti, ci, pi = ctor_rows[i]
        for j in range(i + 1, len(ctor_rows)):
            tj, cj, pj = ctor_rows[j]
            cs.append(z3.Not(z3.And(pi, pj, ci[ti.func_cols - 1] == cj[tj.func_cols - 1])))
        for c in range(ti.func_cols - 1):
            if ti.coltypes[c] == "E":
                cs.append(z3.Implies(pi, ci[ti.func_cols - 1] > ci[c]))
    for t in tables.values():
        for cols, pres in t.rows:
            for c in range(t.func_cols - 1):
                if t.coltypes[c] == "E":
                    cs.append(z3.Implies(pres, z3.Or([z3.And(pq, cq[tq.func_cols - 1] == cols[c], cq[tq.ts_col] <= cols[t.ts_col])
                                                      for tq, cq, pq in ctor_rows]) if ctor_rows else z3.BoolVal(False)))
    return cs


class Table:
    def __init__(self, tid, func_cols, subsume, R, name=None, coltypes=None):
        self.coltypes = coltypes or ["i"] * func_cols  # per data column: 'i' (i64), 'E' (eq-sort id), 'id' (relation row id)
        self.tid = tid
        self.func_cols = func_cols
        self.subsume = subsume
        self.ncols = func_cols + 1 + (1 if subsume else 0)
        self.ts_col = func_cols
        self.sub_col = func_cols + 1 if subsume else None
        self.R = R
        self.name = name or ("t%d" % tid)
        self.rows = []
        for i in range(R):
            cols = [z3.Int("%s_r%d_c%d" % (self.name, i, c)) for c in range(self.ncols)]
            pres = z3.Bool("%s_r%d_p" % (self.name, i))
            self.rows.append((cols, pres))

    def wellformed(self, D, next_ts):
        cs = []
        for cols, pres in self.rows:
            for c in range(self.func_cols):
                cs += [cols[c] >= 0, cols[c] < (ED if self.coltypes[c] == "E" else D)]
            cs += [cols[self.ts_col] >= 0, cols[self.ts_col] < next_ts]
            if self.subsume:
                cs += [z3.Or(cols[self.sub_col] == 0, cols[self.sub_col] == 1)]
        # functional dependency: distinct present rows have distinct keys
        nk = self.func_cols - 1
        for i in range(self.R):
            for j in range(i + 1, self.R):
                same = z3.And([self.rows[i][0][c] == self.rows[j][0][c] for c in range(nk)]) if nk else z3.BoolVal(True)
                cs.append(z3.Not(z3.And(self.rows[i][1], self.rows[j][1], same)))
        # symmetry breaking is deliberately NOT applied (rows are interchangeable; keeps replay simple)
        return cs


def constraint_holds(c, cols):
    k = c["k"]
    if k == "Eq":
        return cols[c["l"]] == cols[c["r"]]
    v = c["val"]
    x = cols[c["col"]]
    if k == "EqConst":
        return x == v
    if k == "LtConst":
        return x < v
    if k == "GtConst":
        return x > v
    if k == "LeConst":
        return x <= v
    if k == "GeConst":
        return x >= v
    raise ModelError("unknown constraint kind %r" % k)


class Alt:
    """One alternative of the existential: row choices so far, accumulated conditions, bindings."""
    __slots__ = ("rows", "conds", "beta")

    def __init__(self, rows=None, conds=None, beta=None):
        self.rows = dict(rows or {})
        self.conds = list(conds or [])
        self.beta = dict(beta or {})

    def fork(self):
        return Alt(self.rows, self.conds, self.beta)


class PlanModel:
    _uid = 0

    def __init__(self, plan, tables, mode="dnf", cands=None):
        """plan: dict from the dump ('kind', 'atoms', 'header', 'stages' | 'blocks'+'result_block').
        tables: {table id: Table}.
        mode 'dnf'   : one alternative per combination of row choices (quantifier-free in the database
                       variables only -- usable under negation);
        mode 'select': one alternative; each row choice is a tuple of fresh existential variables
                       constrained to equal some present row (linear size -- positive positions only).
        mode 'inst'  : like 'dnf' but row choices restricted to `cands` (an UNDER-approximation of what the
                       plan can produce: sound for showing that a given match IS produced)."""
        self.mode = mode
        self.cands = cands  # mode 'inst': {table id: [row indices]} -- row choices restricted to these rows
        self.plan = plan
        self.tables = tables
        self.atoms = {a["id"]: a for a in plan["atoms"]}
        self.headers = {}
        for h in plan["header"]:
            self.headers.setdefault(h["atom"], []).append(h)
        self._inst = 0
        self.check_structure()

    # -- structure ---------------------------------------------------------------------------
    def stage_lists(self):
        if self.plan["kind"] == "Single":
            return [self.plan["stages"]]
        return [b["stages"] for b in self.plan["blocks"]] + [self.plan["result_block"]]

    def check_structure(self):
        for stages in self.stage_lists():
            bound = {}
            for si, st in enumerate(stages):
                vs = [st["var"]] if st["op"] == "Intersect" else [v for _, v in st["bind"]]
                for v in vs:
                    if v in bound and bound[v] != si:
                        raise ModelError("variable %d bound by two stages of one stage list (order-dependent plan)" % v)
                    bound[v] = si
                if len(set(vs)) != len(vs):
                    # the same variable bound twice inside one stage: last write wins in the executor; the
                    # model requires both sources equal, which is what a correct plan means by it.
                    pass

    # -- rows ----------------------------------------------------------------------------------
    def table_of(self, atom):
        a = self.atoms.get(atom)
        if a is None:
            raise ModelError("stage refers to unknown atom %r" % atom)
        t = self.tables.get(a["table"])
        if t is None:
            raise ModelError("atom %r is over undeclared table %r" % (atom, a["table"]))
        return t

    def root_cond(self, atom, cols, pres):
        cs = [pres]
        for h in self.headers.get(atom, []):
            for c in h["constraints"]:
                cs.append(constraint_holds(c, cols))
        return cs

    def with_row(self, alts, inst, atom):
        """Make sure every alternative has a row chosen for (inst, atom); fork over the R rows if not."""
        out = []
        t = self.table_of(atom)
        for alt in alts:
            if (inst, atom) in alt.rows:
                out.append(alt)
                continue
            if self.mode == "select":
                PlanModel._uid += 1
                sel = [z3.Int("sel%d_%s_a%d_c%d" % (PlanModel._uid, t.name, atom, c)) for c in range(t.ncols)]
                alt.rows[(inst, atom)] = sel
                alt.conds.append(z3.Or([z3.And(pres, *[s_ == c_ for s_, c_ in zip(sel, cols)]) for cols, pres in t.rows]))
                alt.conds += self.root_cond(atom, sel, z3.BoolVal(True))
                out.append(alt)
                continue
            for i, (cols, pres) in enumerate(t.rows):
                if self.mode == "inst":
                    by_atom = self.cands.get(("atom", atom))
                    if by_atom is not None:
                        if i not in by_atom:
                            continue
                    elif i not in self.cands.get(t.tid, ()):
                        continue
                a2 = alt.fork()
                a2.rows[(inst, atom)] = i
                a2.conds += self.root_cond(atom, cols, pres)
                out.append(a2)
        return out

    def row(self, alt, inst, atom):
        t = self.table_of(atom)
        r = alt.rows[(inst, atom)]
        return r if isinstance(r, list) else t.rows[r][0]

    # -- stages ----------------------------------------------------------------------------------
    def run_stages(self, stages, alts, mats):
        self._inst += 1
        inst = self._inst
        for st in stages:
            op = st["op"]
            if op == "Intersect":
                scans = st["scans"]
                if not scans:
                    continue
                for sc in scans:
                    alts = self.with_row(alts, inst, sc["atom"])
                for alt in alts:
                    v = self.row(alt, inst, scans[0]["atom"])[scans[0]["col"]]
                    for sc in scans:
                        cols = self.row(alt, inst, sc["atom"])
                        alt.conds.append(cols[sc["col"]] == v)
                        for c in sc["cs"]:
                            alt.conds.append(constraint_holds(c, cols))
                    self.bind(alt, st["var"], v)
            elif op == "FusedIntersect":
                cover = st["cover"]
                alts = self.with_row(alts, inst, cover["atom"])
                for ti in st["to_intersect"]:
                    alts = self.with_row(alts, inst, ti["scan"]["atom"])
                for alt in alts:
                    crow = self.row(alt, inst, cover["atom"])
                    for c in cover["constraints"]:
                        alt.conds.append(constraint_holds(c, crow))
                    key = []
                    for col, var in st["bind"]:
                        self.bind(alt, var, crow[col])
                        key.append(crow[col])
                    self.probe(alt, inst, st["to_intersect"], lambda c: self.addr(key, c, "cover projection"))
            elif op == "FusedIntersectMat":
                mid = st["mat"]
                if mid not in mats:
                    raise ModelError("FusedIntersectMat refers to materialisation %r before it is built" % mid)
                mode = st["mode"]["m"]
                entries = mats[mid]()  # fresh instance of the block: list of (conds, key, nonkey)
                new_alts = []
                for ti in st["to_intersect"]:
                    alts = self.with_row(alts, inst, ti["scan"]["atom"])
                for alt in alts:
                    for (econds, ekey, enk) in entries:
                        a2 = alt.fork()
                        a2.conds += econds
                        if mode in ("Value", "Lookup"):
                            vs = st["mode"]["vars"]
                            if len(vs) != len(ekey):
                                raise ModelError("Value/Lookup key arity %d != materialisation key arity %d" % (len(vs), len(ekey)))
                            for v, k in zip(vs, ekey):
                                if v not in a2.beta:
                                    raise ModelError("Value/Lookup reads unbound variable %d" % v)
                                a2.conds.append(a2.beta[v] == k)
                        if mode == "Full":
                            both = list(ekey) + list(enk)
                            addr = lambda c, both=both: self.addr(both, c, "key++nonkey")
                        elif mode == "KeyOnly":
                            addr = lambda c, ekey=ekey: self.addr(ekey, c, "key")
                        elif mode == "Value":
                            addr = lambda c, enk=enk: self.addr(enk, c, "nonkey")
                        elif mode == "Lookup":
                            if st["bind"] or st["to_intersect"]:
                                raise ModelError("Lookup stage with bind / to_intersect")
                            addr = None
                        else:
                            raise ModelError("unknown mat mode %r" % mode)
                        for col, var in st["bind"]:
                            self.bind(a2, var, addr(col))
                        self.probe(a2, inst, st["to_intersect"], addr)
                        new_alts.append(a2)
                alts = new_alts
            else:
                raise ModelError("unknown stage op %r" % op)
        return alts

    def addr(self, vals, c, what):
        if c < 0 or c >= len(vals):
            raise ModelError("column index %d out of range for %s of width %d" % (c, what, len(vals)))
        return vals[c]

    def bind(self, alt, var, val):
        if var in alt.beta:
            alt.conds.append(alt.beta[var] == val)
        else:
            alt.beta[var] = val

    def probe(self, alt, inst, to_intersect, addr):
        for ti in to_intersect:
            spec = ti["scan"]
            q = self.row(alt, inst, spec["atom"])
            if len(spec["cols"]) != len(ti["cover_cols"]):
                raise ModelError("to_intersect arity mismatch")
            for sc, cc in zip(spec["cols"], ti["cover_cols"]):
                alt.conds.append(q[sc] == addr(cc))
            for c in spec["constraints"]:
                alt.conds.append(constraint_holds(c, q))

    # -- whole plan ------------------------------------------------------------------------------
    def all_atoms_rooted(self):
        """The executor builds a root node for EVERY atom first and gives up if one is empty."""
        conds = []
        for aid in self.atoms:
            t = self.table_of(aid)
            conds.append(z3.Or([z3.And(self.root_cond(aid, cols, pres)) for cols, pres in t.rows]))
        return conds

    def outputs(self):
        """-> list of (conds, beta) alternatives for the bindings handed to the action."""
        pre = self.all_atoms_rooted()
        if self.plan["kind"] == "Single":
            alts = self.run_stages(self.plan["stages"], [Alt(conds=pre)], {})
            return [(a.conds, a.beta) for a in alts]
        mats = {}
        nonempty = []
        for i, blk in enumerate(self.plan["blocks"]):
            def mk(i=i, blk=blk, prev=dict(mats)):
                alts = self.run_stages(blk["stages"], [Alt()], prev)
                ents = []
                for a in alts:
                    try:
                        key = [a.beta[v] for v in blk["msg_vars"]]
                        nk = [a.beta[v] for v in blk["val_vars"]]
                    except KeyError as e:
                        raise ModelError("materialisation %d yields unbound variable %s" % (i, e))
                    ents.append((a.conds, key, nk))
                return ents
            mats[i] = mk
            nonempty.append(z3.Or([z3.And(c) if c else z3.BoolVal(True) for c, _, _ in mk()]))
        alts = self.run_stages(self.plan["result_block"], [Alt(conds=pre + nonempty)], mats)
        return [(a.conds, a.beta) for a in alts]


def run_action(instrs, beta, out_table, next_ts_val, unit_on_external=False, prims=None):
    """Symbolically run the action program on one binding. -> (extra conds, out tuple | None)"""
    env = dict(beta)
    conds = []
    out = None
    prims = list(prims or [])  # kinds of the body's primitive atoms, in source order

    def ev(e):
        if "var" in e:
            if e["var"] not in env:
                raise ModelError("action reads unbound variable %d" % e["var"])
            return env[e["var"]]
        return z3.IntVal(e["const"])

    for ins in instrs:
        op = ins["op"]
        if op == "ReadCounter":
            env[ins["dst"]] = next_ts_val
        elif op in ("LookupOrInsertDefault", "Insert"):
            args = [ev(a) for a in (ins["args"] if op == "LookupOrInsertDefault" else ins["vals"])]
            if ins["table"] == out_table:
                if out is not None:
                    raise ModelError("action writes the Out table twice")
                out = args
                if op == "LookupOrInsertDefault":
                    env[ins["dst"]] = z3.FreshInt("outid")
            else:
                raise ModelError("action writes table %r (only the Out table is modelled)" % ins["table"])
        elif op == "External" and prims:
            kind = prims.pop(0)
            args = [ev(a) for a in ins["args"]]
            if len(args) != 2:
                raise ModelError("primitive with %d arguments" % len(args))
            if kind == "lt":
                conds.append(args[0] < args[1])
                env[ins["dst"]] = z3.FreshInt("unit")
            elif kind == "ne":
                conds.append(args[0] != args[1])
                env[ins["dst"]] = z3.FreshInt("unit")
            elif kind == "add":
                env[ins["dst"]] = args[0] + args[1]
            else:
                raise ModelError("unknown primitive kind %r" % kind)
        elif op == "ExternalWithFallback" and unit_on_external:
            # check_facts: the action only reports "some binding exists" through a callback
            if out is not None:
                raise ModelError("action both writes Out and calls the check callback")
            out = []
            env[ins["dst"]] = z3.FreshInt("ext")
        elif op == "AssertEq":
            conds.append(ev(ins["l"]) == ev(ins["r"]))
        elif op == "AssertNe":
            conds.append(ev(ins["l"]) != ev(ins["r"]))
        else:
            raise ModelError("action instruction %s is outside the model" % op)
    if prims:
        raise ModelError("the action program has fewer External instructions than the body has primitive atoms")
    return conds, out


def plan_tuples(plan_rec, tables, out_table, next_ts_val, mode="dnf", cands=None):
    """-> list of (cond, tuple) : the Out rows the dumped plan + action write."""
    pm = PlanModel(plan_rec["plan"], tables, mode, cands)
    res = []
    for conds, beta in pm.outputs():
        ac, out = run_action(plan_rec["instrs"], beta, out_table, next_ts_val, unit_on_external=(out_table is None),
                             prims=plan_rec.get("prims"))
        if out is None:
            raise ModelError("action does not write the Out table")
        res.append((z3.And(conds + ac) if (conds or ac) else z3.BoolVal(True), out))
    return res


# ------------------------------------------------------------------------------------------------
# source semantics


def source_tuples(flat_atoms, out_vars, tables, include_subsumed=False, prims=None):
    """flat_atoms: list of dict(table=tid, args=[('v',name)|('c',int)], ret=None|('v',name)|('c',int))
    -> list of (cond, tuple, ts_list) alternatives (one per row choice)."""
    alts = []
    choices = [range(tables[a["table"]].R) for a in flat_atoms]
    for combo in itertools.product(*choices):
        env = {}
        conds = []
        tss = []
        ok = True
        for a, i in zip(flat_atoms, combo):
            t = tables[a["table"]]
            cols, pres = t.rows[i]
            conds.append(pres)
            if t.subsume and not include_subsumed:
                conds.append(cols[t.sub_col] == 0)
            tss.append(cols[t.ts_col])
            entries = list(a["args"]) + ([a["ret"]] if a.get("ret") is not None else [])
            if len(a["args"]) != t.func_cols - 1:
                raise ModelError("source atom arity %d does not match table %s" % (len(a["args"]), t.name))
            for pos, e in enumerate(entries):
                if e[0] == "c":
                    conds.append(cols[pos] == e[1])
                else:
                    if e[1] in env:
                        conds.append(env[e[1]] == cols[pos])
                    else:
                        env[e[1]] = cols[pos]
        if not ok:
            continue
        for pr in prims or []:
            def pv(e):
                return z3.IntVal(e[1]) if e[0] == "c" else env[e[1]]
            a0, a1 = pv(pr["args"][0]), pv(pr["args"][1])
            if pr["kind"] == "lt":
                conds.append(a0 < a1)
            elif pr["kind"] == "ne":
                conds.append(a0 != a1)
            else:
                r = pr["ret"]
                if r[0] == "c":
                    conds.append(a0 + a1 == r[1])
                elif r[1] in env:
                    conds.append(env[r[1]] == a0 + a1)
                else:
                    env[r[1]] = a0 + a1
        tup = [env[v] for v in out_vars]
        cands = {}
        for a, i in zip(flat_atoms, combo):
            cands.setdefault(a["table"], set()).add(i)
        alts.append((z3.And(conds), tup, tss, cands))
    return alts


def member(alts, tup):
    """tup in { t : cond } as a formula"""
    return z3.Or([z3.And(c, *[a == b for a, b in zip(t, tup)]) for c, t in alts]) if alts else z3.BoolVal(False)
